"""C03 - concurrent LRI/LRU operations are atomic (linearizable) under every thread schedule."""
import itertools
import os
import sys
import threading

from hypothesis import strategies as st

from vlib.core import Outcome, Sub, HarnessError

from boltons import cacheutils
from boltons.cacheutils import LRI, LRU

from props.c02_cache import Ref

LEVEL = 'exploration'
RULE = ('2-3 threads, each a program of 1-3 cache operations on a shared LRI/LRU (max_size 1-3, on_miss None or a function), and a schedule. '
        'The harness owns the schedule: real threads, but only the one holding the turn runs; each worker traces itself and, for frames of '
        'boltons/cacheutils.py, gets a callback before EVERY bytecode instruction - the pre-emption points. The module\'s RLock is replaced by a '
        're-entrant lock that yields the turn to the owner instead of blocking. For every generated program ALL single pre-emption points '
        '(each opcode index x each other thread) are enumerated, plus generated double and triple pre-emptions. Oracle: linearizability against '
        'the C02 reference cache - some interleaving of the operations (respecting program order) yields exactly the observed return values / '
        'exception types, final contents and final eviction order (probed sequentially afterwards); no deadlock, len <= max_size, cache usable '
        'afterwards. non-trivial = a pre-emption happened inside a cache method while the threads share a key or cause an eviction. '
        'distinct = distinct (program, schedule) pairs (counted as inner executions). Keys include an unhashable one (every operation must raise '
        'TypeError, change nothing and leave the lock free). Sub "bulk": one thread calls update() with 1000-8193 items (dict, pairs, generator, '
        'keys()-object, keyword arguments; max_size 3 .. 2n) while 1-2 threads read len/copy/first/last/middle keys; per-opcode enumeration is out of '
        'reach there, so every complete release of the cache lock is a pre-emption point (all single ones, generated multiples) - in an atomic '
        'implementation the lock is only released between operations.')
ASSUMPTIONS = [
    'CPython with the GIL: pre-emption granularity is one bytecode instruction of cacheutils.py; C-level dict operations are atomic',
    'at most 3 pre-emptions, 3 threads x 3 operations; counters are not compared under concurrency (statement: values, contents, order)',
    'the lock is observed through the module attribute cacheutils.RLock; if tracing or that attribute is unavailable the check reports it as a harness error',
]

CACHE_FILE = os.path.realpath(cacheutils.__file__)


MAX_STEPS = 40000
_RUNAWAY = [False]


class SchedulerError(Exception):
    pass


class Scheduler:
    def __init__(self, nthreads, plan):
        self.cv = threading.Condition()
        self.turn = 0
        self.n = nthreads
        self.finished = [False] * nthreads
        self.plan = dict(plan)         # step -> target thread
        self.step = 0
        self.abort = False
        self.switches = 0
        self.lock_yields = 0
        self.local = threading.local()
        self.error = None
        self.owners = []        # which thread executed each opcode step
        self.releases = 0
        self.release_plan = {}  # n-th complete lock release -> target thread

    def me(self):
        return self.local.idx

    def wait_turn(self, me, in_trace=False):
        """in_trace: called from the per-instruction trace callback.  No exception is ever raised out of a trace callback on an
        abort (an exception injected between two arbitrary bytecodes, in several threads at once, crashed the 3.12 interpreter
        about once in five runs of a failing variant): after an abort the schedule is void, every thread simply runs on
        unscheduled until its operations are done, and the run is reported through sched.error."""
        with self.cv:
            waited = 0
            while self.turn != me:
                if self.abort:
                    if in_trace:
                        return
                    raise SchedulerError('aborted')
                if not self.cv.wait(timeout=0.5):
                    waited += 1
                    if waited > 20:
                        self.abort = True
                        self.error = 'thread %d waited 10 s for its turn (deadlock?)' % me
                        self.cv.notify_all()
                        if in_trace:
                            return
                        raise SchedulerError(self.error)

    def give_turn(self, to):
        with self.cv:
            self.turn = to
            self.cv.notify_all()

    def tick(self):
        """called before every bytecode instruction executed inside cacheutils.py by the thread holding the turn"""
        if self.abort and self.step <= MAX_STEPS:
            return          # schedule void (see wait_turn): run on freely
        self.step += 1
        if self.step > MAX_STEPS:
            # a normal execution needs a few hundred steps: this is an endless loop over a corrupted structure
            self.abort = True
            self.error = self.error or 'more than %d bytecode steps inside cacheutils.py (endless loop over a corrupted structure)' % MAX_STEPS
            with self.cv:
                self.cv.notify_all()
            raise SchedulerError(self.error)
        self.owners.append(self.local.idx)
        target = self.plan.get(self.step)
        if target is None:
            return
        me = self.me()
        if target == me or target >= self.n or self.finished[target]:
            return
        self.switches += 1
        self.give_turn(target)
        self.wait_turn(me, in_trace=True)

    def on_release(self):
        """called when the thread holding the turn releases the cache's lock completely"""
        self.releases += 1
        target = self.release_plan.get(self.releases)
        if target is None:
            return
        me = self.me()
        if target == me or target >= self.n or self.finished[target]:
            return
        self.switches += 1
        self.give_turn(target)
        self.wait_turn(me)

    def finish(self, me):
        with self.cv:
            self.finished[me] = True
            for t in range(self.n):
                if not self.finished[t]:
                    self.turn = t
                    break
            self.cv.notify_all()


class CoopRLock:
    """re-entrant lock that cooperates with the scheduler: a thread that finds it held yields the turn to the owner"""
    sched = None

    def __init__(self):
        self.owner = None
        self.count = 0

    def acquire(self, blocking=True, timeout=-1):
        s = CoopRLock.sched
        if s is None or not hasattr(s.local, 'idx'):
            self.count += 1
            return True
        me = s.me()
        spins = 0
        while self.owner is not None and self.owner != me:
            spins += 1
            if spins > 200 or s.finished[self.owner]:
                s.abort = True
                s.error = 'lock held by thread %r never released (deadlock / lock leaked)' % self.owner
                with s.cv:
                    s.cv.notify_all()
                raise SchedulerError(s.error)
            s.lock_yields += 1
            s.give_turn(self.owner)
            s.wait_turn(me)
        self.owner = me
        self.count += 1
        return True

    def release(self):
        self.count -= 1
        if self.count <= 0:
            self.count = 0
            self.owner = None
            s = CoopRLock.sched
            if s is not None and s.release_plan is not None and hasattr(s.local, 'idx') and not s.abort:
                s.on_release()

    __enter__ = acquire

    def __exit__(self, *a):
        self.release()


class PV:
    """a value whose equality is decided by Python-level code (most user-defined values): comparing a cache with a dict of such
    values runs this method once per key, and each of its instructions is a pre-emption point like those inside cacheutils"""
    __slots__ = ('v',)

    def __init__(self, v):
        self.v = v

    def __eq__(self, other):
        ov = other.v if isinstance(other, PV) else other
        return self.v == ov

    def __hash__(self):
        return hash(self.v)

    def __repr__(self):
        return 'PV(%r)' % (self.v,)


def make_tracer(sched):
    def local_trace(frame, event, arg):
        if event == 'opcode':
            sched.tick()
        return local_trace

    def tracer(frame, event, arg):
        if event == 'call' and (frame.f_code.co_filename == CACHE_FILE_RAW[0] or frame.f_code is PV.__eq__.__code__):
            frame.f_trace_opcodes = True
            return local_trace
        return None
    return tracer


CACHE_FILE_RAW = [cacheutils.LRI.__setitem__.__code__.co_filename]
_PRIMED = [False]


def prime_opcode_tracing():
    """CPython 3.12 only turns per-instruction events on at a sys.settrace() call made *after* some frame has asked for
    f_trace_opcodes; do that once per process so that the very first traced thread is already traced per opcode."""
    if _PRIMED[0]:
        _park_tracing_thread()      # (a forked worker inherits the flag but not the thread)
        return

    def _t(frame, event, arg):
        frame.f_trace_opcodes = True
        return None

    def _dummy():
        return 1
    old = sys.gettrace()
    sys.settrace(_t)
    _dummy()
    sys.settrace(old)
    _PRIMED[0] = True
    _park_tracing_thread()


_PARK = {}


def _park_tracing_thread():
    """Keep one (idle) thread with a trace function alive for the life of the process.  CPython 3.12 re-instruments every code
    object whenever the number of tracing threads goes from 0 to 1 or back; with worker threads switching tracing on and off
    for every schedule that happened tens of thousands of times per run while other threads were suspended in the middle of
    instrumented frames, and about one run in five of a (seeded, lock-free) variant of cacheutils died with SIGSEGV inside the
    interpreter.  With the parked thread the count never returns to 0, so the instrumentation stays as it is."""
    pid = os.getpid()
    if _PARK.get('pid') == pid:
        return
    ready = threading.Event()

    def park():
        sys.settrace(lambda frame, event, arg: None)
        ready.set()
        threading.Event().wait()        # forever (daemon thread)
    th = threading.Thread(target=park, daemon=True, name='c03-tracing-keepalive')
    th.start()
    ready.wait(5)
    _PARK['pid'] = pid


# ---------------------------------------------------------------------------
# programs

_k = st.sampled_from([0, 0, 1, 1, 2, 3])       # few keys: the threads meet on the same key often
UNHASHABLE = 9                                  # key class: an unhashable key (every operation raises TypeError and changes nothing)
_ku = st.sampled_from([0, 0, 0, 1, 1, 1, 2, 2, 3, 3, UNHASHABLE])
_v = st.integers(0, 3)
_op = st.one_of(
    st.tuples(st.just('set'), _ku, _v), st.tuples(st.just('set'), _k, _v), st.tuples(st.just('set'), _k, _v),
    st.tuples(st.just('getitem'), _ku), st.tuples(st.just('getitem'), _ku),
    st.tuples(st.just('get'), _ku), st.tuples(st.just('del'), _ku), st.tuples(st.just('pop'), _ku),
    st.tuples(st.just('setdefault'), _ku, _v), st.tuples(st.just('update'), _k, _k, _v),
    st.tuples(st.just('update_kw'), _k, _k, _v),
    st.tuples(st.just('eq'), st.lists(st.tuples(_k, _v).map(list), min_size=1, max_size=3), st.sampled_from(['eq', 'eq', 'ne'])),
    st.tuples(st.just('clear')), st.tuples(st.just('copy')), st.tuples(st.just('popitem')),
    st.tuples(st.just('contains'), _ku), st.tuples(st.just('len')),
).map(list)

# 'bulk' programs: one thread performs an update() with thousands of items, the other small operations on the first/last
# of those keys; pre-emption only where the lock is released completely (see run_bulk)
BULK_BASE = 100
_bulk_n = st.sampled_from([1000, 4097, 4097, 5000, 8193])


def _bulk_case(draw):
    n = draw(_bulk_n)
    kb = st.sampled_from([0, 1, BULK_BASE, BULK_BASE + 1, BULK_BASE + n - 1, BULK_BASE + n - 2, BULK_BASE + n // 2])
    small = st.one_of(
        st.tuples(st.just('len')), st.tuples(st.just('len')), st.tuples(st.just('copy')),
        st.tuples(st.just('contains'), kb), st.tuples(st.just('getitem'), kb), st.tuples(st.just('get'), kb),
        st.tuples(st.just('set'), kb, _v), st.tuples(st.just('del'), kb), st.tuples(st.just('pop'), kb),
    ).map(list)
    big = ['bigupdate', n, draw(st.sampled_from(['dict', 'pairs', 'gen', 'keys_obj', 'kwargs']))]
    p0 = draw(st.lists(small, max_size=1)) + [big] + draw(st.lists(small, max_size=1))
    others = draw(st.lists(st.lists(small, min_size=1, max_size=3), min_size=1, max_size=2))
    return {
        'sub': 'bulk',
        'cls': draw(st.sampled_from(['LRI', 'LRU'])),
        'max_size': draw(st.sampled_from([3, n // 2, n + 10, n + 10, 2 * n])),
        'on_miss': draw(st.sampled_from(['none', 'tuple'])),
        'init': draw(st.lists(st.tuples(st.sampled_from([0, 1, BULK_BASE]), _v).map(list), max_size=2)),
        'programs': [p0] + others,
        'multi': draw(st.lists(st.lists(st.tuples(st.integers(1, 40), st.integers(0, 2)).map(list), min_size=2, max_size=3), max_size=6)),
    }


@st.composite
def _torn(draw):
    """one reader against a writer that changes two keys: a read that is not atomic can see the first key old and the second
    key new (or the reverse) - a combination the cache never held"""
    x0, x1 = draw(_v), draw(_v)
    y0, y1 = (x0 + 1 + draw(st.integers(0, 2))) % 4, (x1 + 1 + draw(st.integers(0, 2))) % 4
    mixed = draw(st.sampled_from([[[0, x0], [1, y1]], [[0, y0], [1, x1]], [[1, y1], [0, x0]]]))
    reader = draw(st.sampled_from([['eq', mixed, 'eq'], ['eq', mixed, 'ne'], ['copy'], ['eq', [[0, x0], [1, x1]], 'eq']]))
    writer = draw(st.sampled_from([[['set', 0, y0], ['set', 1, y1]], [['update', 0, 1, y0]], [['set', 1, y1], ['set', 0, y0]],
                                   [['del', 0], ['set', 0, y0], ['set', 1, y1]]]))
    progs = [[reader], writer]
    if draw(st.booleans()):
        progs.reverse()
    return {'sub': 'sched', 'cls': draw(st.sampled_from(['LRI', 'LRU'])), 'max_size': draw(st.sampled_from([2, 3])),
            'on_miss': 'none', 'init': [[0, x0], [1, x1]], 'programs': progs, 'multi': []}


@st.composite
def _same_key(draw):
    """both threads work on ONE key: a check-then-act operation (setdefault, a lookup that loads through on_miss, pop, update)
    against writers/removers of the same key - the races a missing lock around a compound operation opens"""
    k = draw(st.sampled_from([0, 1]))
    v = st.integers(0, 3)
    compound = st.one_of(
        st.tuples(st.just('setdefault'), st.just(k), v), st.tuples(st.just('setdefault'), st.just(k), v),
        st.tuples(st.just('getitem'), st.just(k)), st.tuples(st.just('get'), st.just(k)),
        st.tuples(st.just('pop'), st.just(k)), st.tuples(st.just('update'), st.just(k), st.sampled_from([0, 1, 2]), v),
        st.tuples(st.just('update_kw'), st.just(k), st.sampled_from([0, 1, 2]), v), st.tuples(st.just('contains'), st.just(k)),
    ).map(list)
    simple = st.one_of(
        st.tuples(st.just('set'), st.just(k), v), st.tuples(st.just('set'), st.just(k), v), st.tuples(st.just('del'), st.just(k)),
        st.tuples(st.just('pop'), st.just(k)), st.tuples(st.just('setdefault'), st.just(k), v), st.tuples(st.just('set'), st.just(2), v),
        st.tuples(st.just('clear')),
    ).map(list)
    progs = [draw(st.lists(compound, min_size=1, max_size=2)), draw(st.lists(simple, min_size=1, max_size=2))]
    if draw(st.booleans()):
        progs.append(draw(st.lists(st.one_of(compound, simple), min_size=1, max_size=2)))
    return {'sub': 'sched', 'cls': draw(st.sampled_from(['LRI', 'LRU'])), 'max_size': draw(st.sampled_from([1, 2, 2])),
            'on_miss': draw(st.sampled_from(['none', 'none', 'tuple'])),
            'init': draw(st.sampled_from([[], [[k, 0]], [[2, 0]], [[2, 0]]])), 'programs': progs,
            'multi': draw(st.lists(st.lists(st.tuples(st.integers(1, 400), st.integers(0, 2)).map(list), min_size=2, max_size=3), max_size=6))}


@st.composite
def _unhashable_key(draw):
    """one thread uses an unhashable key (every operation raises TypeError and must leave the cache and its lock as they were),
    the others carry on with ordinary operations afterwards"""
    v = st.integers(0, 3)
    bad = st.one_of(st.tuples(st.just('getitem'), st.just(UNHASHABLE)), st.tuples(st.just('get'), st.just(UNHASHABLE)),
                    st.tuples(st.just('set'), st.just(UNHASHABLE), v), st.tuples(st.just('setdefault'), st.just(UNHASHABLE), v),
                    st.tuples(st.just('pop'), st.just(UNHASHABLE)), st.tuples(st.just('del'), st.just(UNHASHABLE)),
                    st.tuples(st.just('contains'), st.just(UNHASHABLE))).map(list)
    good = st.one_of(st.tuples(st.just('set'), _k, v), st.tuples(st.just('getitem'), _k), st.tuples(st.just('len')),
                     st.tuples(st.just('setdefault'), _k, v), st.tuples(st.just('copy'))).map(list)
    progs = [draw(st.lists(bad, min_size=1, max_size=2)) + draw(st.lists(good, max_size=1)), draw(st.lists(good, min_size=1, max_size=2))]
    if draw(st.booleans()):
        progs.reverse()
    return {'sub': 'sched', 'cls': draw(st.sampled_from(['LRI', 'LRU', 'LRU'])), 'max_size': draw(st.integers(1, 3)),
            'on_miss': draw(st.sampled_from(['none', 'tuple'])), 'init': draw(st.lists(st.tuples(_k, v).map(list), max_size=2)),
            'programs': progs, 'multi': []}


def strat(tier):
    return st.integers(0, 15).flatmap(lambda j: _unhashable_key() if j == 15 else _strat_mix(tier))


def _strat_mix(tier):
    return st.integers(0, 7).flatmap(lambda i: _torn() if i == 0 else (_same_key() if i in (1, 2, 3) else _strat_general(tier)))


def _strat_general(tier):
    return st.fixed_dictionaries({
        'sub': st.just('sched'),
        'cls': st.sampled_from(['LRI', 'LRU']),
        'max_size': st.integers(1, 3),
        'on_miss': st.sampled_from(['none', 'tuple']),
        'init': st.lists(st.tuples(_k, _v).map(list), max_size=3),
        'programs': st.lists(st.lists(_op, min_size=1, max_size=3), min_size=2, max_size=3),
        'multi': st.lists(st.lists(st.tuples(st.integers(1, 400), st.integers(0, 2)).map(list), min_size=2, max_size=3), max_size=12 if tier == 'quick' else 40),
    })


def K(i):
    if i == UNHASHABLE:
        return ['unhashable']
    return 'k%d' % i


class KeysObj:
    """a mapping-like update() source that only offers keys() and __getitem__"""
    def __init__(self, n):
        self.n = n

    def keys(self):
        return (K(BULK_BASE + i) for i in range(self.n))

    def __getitem__(self, k):
        return int(k[1:]) - BULK_BASE


def apply_real(c, op):
    name = op[0]
    try:
        if name == 'set':
            c[K(op[1])] = op[2]
            return ('ok', None)
        if name == 'getitem':
            return ('ok', c[K(op[1])])
        if name == 'get':
            return ('ok', c.get(K(op[1]), 'dflt'))
        if name == 'del':
            del c[K(op[1])]
            return ('ok', None)
        if name == 'pop':
            return ('ok', c.pop(K(op[1]), 'dflt'))
        if name == 'setdefault':
            return ('ok', c.setdefault(K(op[1]), op[2]))
        if name == 'update':
            c.update({K(op[1]): op[3], K(op[2]): op[3] + 10})
            return ('ok', None)
        if name == 'eq':
            other = {K(k): PV(v) for k, v in op[1]}
            return ('ok', (c != other) if len(op) > 2 and op[2] == 'ne' else (c == other))      # ONE cache operation
        if name == 'update_kw':
            # a positional source and keyword arguments in ONE call
            c.update({K(op[1]): op[3]}, **{K(op[2]): op[3] + 10})
            return ('ok', None)
        if name == 'bigupdate':
            n, src = op[1], op[2]
            if src == 'dict':
                c.update({K(BULK_BASE + i): i for i in range(n)})
            elif src == 'pairs':
                c.update([(K(BULK_BASE + i), i) for i in range(n)])
            elif src == 'gen':
                c.update((K(BULK_BASE + i), i) for i in range(n))
            elif src == 'keys_obj':
                c.update(KeysObj(n))
            else:
                c.update({}, **{K(BULK_BASE + i): i for i in range(n)})
            return ('ok', None)
        if name == 'clear':
            c.clear()
            return ('ok', None)
        if name == 'copy':
            return ('ok', ('copy', sorted(dict(c.copy()).items())))
        if name == 'popitem':
            return ('ok', ('popitem', c.popitem()))
        if name == 'contains':
            return ('ok', K(op[1]) in c)
        if name == 'len':
            return ('ok', len(c))
    except SchedulerError:
        raise
    except Exception as e:      # noqa
        return ('exc', type(e).__name__)
    raise HarnessError('op %r' % (op,))


def apply_model(ref, op, observed):
    """apply op to the reference; returns the reference result, or ('mismatch',) when the observed result is impossible here"""
    name = op[0]
    od = ref.od
    if len(op) > 1 and op[1] == UNHASHABLE and name in ('set', 'getitem', 'get', 'del', 'pop', 'setdefault', 'contains'):
        if name == 'pop' and not od:
            return ('ok', 'dflt')       # like the builtin: dict.pop on an empty dict returns the default without hashing the key
        return ('exc', 'TypeError')
    try:
        if name == 'bigupdate':
            for i in range(op[1]):
                ref.set(K(BULK_BASE + i), i)
            return ('ok', None)
        if name == 'set':
            ref.set(K(op[1]), op[2])
            return ('ok', None)
        if name == 'getitem':
            return ('ok', ref.getitem(K(op[1])))
        if name == 'get':
            return ('ok', ref.get(K(op[1]), 'dflt'))
        if name == 'del':
            del od[K(op[1])]
            return ('ok', None)
        if name == 'pop':
            return ('ok', od.pop(K(op[1]), 'dflt'))
        if name == 'setdefault':
            return ('ok', ref.setdefault(K(op[1]), op[2]))
        if name == 'eq':
            same = dict(od) == {K(k): v for k, v in op[1]}
            return ('ok', (not same) if len(op) > 2 and op[2] == 'ne' else same)
        if name == 'update_kw':
            ref.set(K(op[1]), op[3])
            ref.set(K(op[2]), op[3] + 10)
            return ('ok', None)
        if name == 'update':
            if op[1] == op[2]:
                ref.set(K(op[1]), op[3] + 10)
            else:
                ref.set(K(op[1]), op[3])
                ref.set(K(op[2]), op[3] + 10)
            return ('ok', None)
        if name == 'clear':
            od.clear()
            return ('ok', None)
        if name == 'copy':
            return ('ok', ('copy', sorted(od.items())))
        if name == 'popitem':
            if not od:
                return ('exc', 'KeyError')
            if observed[0] == 'ok' and isinstance(observed[1], tuple) and observed[1][0] == 'popitem':
                k, v = observed[1][1]
                if k in od and od[k] == v:
                    del od[k]
                    return observed
            return ('mismatch',)
        if name == 'contains':
            return ('ok', K(op[1]) in od)
        if name == 'len':
            return ('ok', len(od))
    except KeyError:
        return ('exc', 'KeyError')
    raise HarnessError('op %r' % (op,))


ON_MISS = {'none': None, 'tuple': lambda k: ('m', k)}


def new_ref(case):
    ref = Ref(case['cls'], case['max_size'], ON_MISS[case['on_miss']])
    for k, v in case['init']:
        ref.set(K(k), v)
    return ref


def probe_order(c, max_size):
    """black-box eviction order of the final cache: insert fresh keys, watch which original key vanishes"""
    originals = list(dict(c))
    present = set(originals)
    victims = []
    for i in range(max_size + len(originals) + 1):
        c['fresh%d' % i] = i
        if len(c) > max_size:
            return None, 'len %d exceeds max_size %d while probing' % (len(c), max_size)
        for k in originals:
            if k in present and k not in c:
                present.discard(k)
                victims.append(k)
        if not present:
            break
    if present:
        return None, 'keys %r were never evicted by %d fresh inserts' % (sorted(present), max_size + len(originals) + 1)
    return victims, None


def _clone(ref):
    r = Ref(ref.kind, ref.max, ref.on_miss)
    r.od = ref.od.copy()
    return r


_LIN_MEMO = {}


def linearizable(case, results, final_items, final_order):
    """is there an interleaving of the programs (respecting program order) whose sequential execution on the
    reference cache gives exactly the observed results, final contents and final eviction order?  DFS with pruning."""
    from vlib.core import canon
    key = (canon(case['programs']), canon(case['init']), case['cls'], case['max_size'], case['on_miss'],
           repr(results), repr(sorted(final_items.items())), repr(final_order))
    if key in _LIN_MEMO:
        return _LIN_MEMO[key]
    if len(_LIN_MEMO) > 20000:
        _LIN_MEMO.clear()
    progs = case['programs']
    n = len(progs)

    def dfs(ref, idx):
        if all(idx[t] == len(progs[t]) for t in range(n)):
            if dict(ref.od) != final_items:
                return False
            return final_order is None or list(ref.od) == final_order
        for t in range(n):
            if idx[t] == len(progs[t]):
                continue
            r2 = _clone(ref)
            obs = results[t][idx[t]]
            if apply_model(r2, progs[t][idx[t]], obs) != obs:
                continue
            idx[t] += 1
            ok = dfs(r2, idx)
            idx[t] -= 1
            if ok:
                return True
        return False

    res = dfs(new_ref(case), [0] * n)
    _LIN_MEMO[key] = res
    return res


def execute(case, plan, release_plan=None, trace=True):
    """run the programs under the given pre-emption plan.  Returns dict or raises SchedulerError text in result."""
    prime_opcode_tracing()
    cls = {'LRI': LRI, 'LRU': LRU}[case['cls']]
    progs = case['programs']
    sched = Scheduler(len(progs), plan)
    sched.release_plan = dict(release_plan or {})
    real_rlock = cacheutils.RLock
    cacheutils.RLock = CoopRLock
    CoopRLock.sched = None
    try:
        c = cls(max_size=case['max_size'], on_miss=ON_MISS[case['on_miss']])
        for k, v in case['init']:
            c[K(k)] = v
    finally:
        cacheutils.RLock = real_rlock
    if not isinstance(getattr(c, '_lock', None), CoopRLock):
        raise HarnessError('the cache did not pick up the cooperative lock (cacheutils.RLock no longer used?)')
    CoopRLock.sched = sched
    results = [[None] * len(p) for p in progs]
    tracer = make_tracer(sched)

    def worker(t):
        sched.local.idx = t
        try:
            sched.wait_turn(t)
            if trace:
                sys.settrace(tracer)
            try:
                for i, op in enumerate(progs[t]):
                    results[t][i] = apply_real(c, op)
            finally:
                sys.settrace(None)
        except SchedulerError:
            pass
        except BaseException as e:   # noqa
            sched.error = sched.error or 'worker %d crashed: %r' % (t, e)
            sched.abort = True
        finally:
            try:
                sched.finish(t)
            except Exception:
                pass

    threads = [threading.Thread(target=worker, args=(t,), daemon=True) for t in range(len(progs))]
    for th in threads:
        th.start()
    for th in threads:
        th.join(30)
    hung = any(th.is_alive() for th in threads)
    if hung:
        sched.abort = True
        with sched.cv:
            sched.cv.notify_all()
        for th in threads:
            th.join(2)
    CoopRLock.sched = None
    if any(th.is_alive() for th in threads):
        _RUNAWAY[0] = True      # a thread of this run is still alive: this process must not run further schedules
    return {'cache': c, 'results': results, 'steps': sched.step, 'switches': sched.switches, 'lock_yields': sched.lock_yields,
            'owners': sched.owners, 'releases': sched.releases,
            'error': sched.error or ('threads did not finish within 30 s' if hung else None)}


def _short(x, n=400):
    t = repr(x)
    return t if len(t) <= n else t[:n] + '...(%d chars)' % len(t)


def check_run(case, plan, out, release_plan=None, trace=True):
    r = execute(case, plan, release_plan, trace)
    where = '%s(max_size=%d, on_miss=%s) initial %r, thread programs %r, pre-emptions (opcode index -> thread) %r' % (
        case['cls'], case['max_size'], case['on_miss'], [(K(k), v) for k, v in case['init']], case['programs'], sorted(plan.items()))
    if release_plan:
        where += ', pre-emptions at complete lock releases (n-th release -> thread) %r' % sorted(release_plan.items())
    if r['error']:
        out.fail('hang' if _RUNAWAY[0] else 'c03.deadlock', '%s: %s' % (where, r['error']))
        return None
    c = r['cache']
    results = r['results']
    if any(x is None for row in results for x in row):
        out.fail('c03.operation-lost', '%s: some operations never completed: %r' % (where, results))
        return None
    try:
        final_items = dict(c)
        n = len(c)
    except Exception as e:      # noqa
        out.fail('c03.unusable', '%s: reading the cache afterwards raised %r' % (where, e))
        return None
    if n > case['max_size'] or n != len(final_items):
        out.fail('c03.capacity', '%s: final len %d (items %r), max_size %d' % (where, n, final_items, case['max_size']))
        return None
    snapshot_results = [list(row) for row in results]
    try:
        if case['max_size'] > 16:
            order, err = None, None     # large caches (bulk programs): contents are compared, the quadratic order probe is skipped
        else:
            order, err = probe_order(c, case['max_size'])
    except Exception as e:      # noqa
        out.fail('c03.unusable', '%s: the cache is unusable afterwards: inserting fresh keys raised %r; results %r, final items %r' % (
            where, e, snapshot_results, final_items))
        return None
    if err:
        out.fail('c03.corrupt', '%s: %s; results %r, final items %r' % (where, err, snapshot_results, final_items))
        return None
    if not linearizable(case, results, final_items, order):
        out.fail('c03.not-linearizable', '%s: observed results %s, final items %s, final eviction order %r - no sequential execution of the same '
                 'operations (respecting each thread\'s order) produces this' % (where, _short(snapshot_results), _short(final_items), order))
        return None
    # usable epilogue
    try:
        c['z'] = 1
        if c.get('z') != 1 or c.pop('z') != 1:
            raise AssertionError('set/get/pop of a fresh key disagree')
    except Exception as e:      # noqa
        out.fail('c03.unusable', '%s: epilogue failed: %r' % (where, e))
        return None
    return r


def run_bulk(case):
    """programs with a many-thousand-item update(): per-opcode enumeration is out of reach, so the pre-emption points are the
    complete releases of the cache's lock - in an atomic implementation these only occur between operations"""
    out = Outcome()
    if _RUNAWAY[0]:
        return out.fail('hang', 'a thread of an earlier schedule never finished in this process; no further schedules are run here')
    nthreads = len(case['programs'])
    base = check_run(case, {}, out, {}, trace=False)
    if base is None:
        return out
    rel = base['releases']
    if rel == 0:
        raise HarnessError('the cooperative lock was never released during a bulk program')
    runs = 1
    switched = 0
    plans = [{p: t} for p in range(1, rel + 1) for t in range(1, nthreads)]
    for plan in case['multi']:
        plans.append({1 + (idx % (rel + 2)): target % nthreads for idx, target in plan})
    for pl in plans:
        r = check_run(case, {}, out, pl, trace=False)
        runs += 1
        if r is None:
            out.units = runs
            return out
        switched += r['switches']
    out.units = runs
    out.nontrivial = switched > 0
    out.label('bulk:n=%d' % max(op[1] for op in case['programs'][0] if op[0] == 'bigupdate'))
    out.label('bulk:max_size%s' % ('<n' if case['max_size'] < 1000 else '>=n/2'))
    return out


def run(case):
    if case.get('sub') == 'bulk':
        return run_bulk(case)
    if case.get('sub') == 'fresh':
        return run_fresh(case)
    out = Outcome()
    if _RUNAWAY[0]:
        return out.fail('hang', 'a thread of an earlier schedule never finished in this process; no further schedules are run here')
    progs = case['programs']
    nthreads = len(progs)
    base = check_run(case, {}, out)
    if base is None:
        return out
    steps = base['steps']
    if steps == 0 and any(op[0] in ('set', 'getitem', 'get', 'del', 'pop', 'setdefault', 'update', 'update_kw', 'eq', 'clear', 'copy', 'popitem')
                          for p in progs for op in p):
        raise HarnessError('no per-opcode trace events although the programs run Python-level cache methods')
    if steps == 0:
        # only C-level operations (len, in): nothing to pre-empt inside cacheutils
        out.units = 1
        out.label('no_python_level_steps')
        return out
    runs = 1
    switched = 0
    yields = 0
    owners = base['owners']
    for p in range(1, steps + 1):
        # without pre-emption the threads run one after the other: at step p only the threads after the
        # running one are still unfinished (switching to the running or to a finished thread is a no-op)
        for target in range(owners[p - 1] + 1, nthreads):
            r = check_run(case, {p: target}, out)
            runs += 1
            if r is None:
                out.units = runs
                return out
            switched += r['switches']
            yields += r['lock_yields']
    for plan in case['multi']:
        pl = {}
        for entry in plan:
            if len(entry) != 2:
                continue        # (shrinker artefact)
            idx, target = entry
            pl[1 + (idx % steps)] = target % nthreads
        r = check_run(case, pl, out)
        runs += 1
        if r is None:
            out.units = runs
            return out
        switched += r['switches']
        yields += r['lock_yields']
    keysets = []
    for p in progs:
        ks = set()
        for op in p:
            if op[0] in ('clear', 'copy', 'popitem', 'len', 'eq'):
                ks.add('*')
            else:
                ks.add(op[1])
                if op[0] in ('update', 'update_kw'):
                    ks.add(op[2])
        keysets.append(ks)
    shared = any((a & b) or '*' in a or '*' in b for a, b in itertools.combinations(keysets, 2))
    out.units = runs
    out.nontrivial = switched > 0 and shared
    out.label('schedules:%d' % (64 * (runs // 64)))
    if yields:
        out.label('preempted_thread_held_the_lock')
    if shared:
        out.label('threads_share_keys')
    return out


def strat_bulk(tier):
    return st.composite(_bulk_case)()


# ---------------------------------------------------------------------------
# sub-check "fresh": process history.  The cache is built in a brand-new interpreter straight after `import boltons.cacheutils`
# (before the program itself has imported threading, the way a module-level `_cache = LRU(...)` is), threads come later.
# Black-box and free of timing assumptions about a correct cache: thread A's lookup misses and its on_miss reads another key
# twice, with a pause in between during which thread B tries to assign that key.  An atomic lookup makes B wait, A sees
# (1, 1); (1, 2) cannot be produced by any sequential order.  If B is slow the probe sees (1, 1) as well - no false alarm.

FRESH_SCRIPT = r'''
import sys, json
sys.path.insert(0, sys.argv[1])
from boltons.cacheutils import LRI, LRU
cls = {'LRI': LRI, 'LRU': LRU}[sys.argv[2]]
state = {}
def on_miss(key):
    c = state['cache']
    v1 = c.get('base')
    state['e1'].set()
    state['e2'].wait(float(sys.argv[3]))
    v2 = c.get('base')
    return (v1, v2)
cache = cls(max_size=8, on_miss=on_miss)          # built before this program imports threading
cache['base'] = 1
state['cache'] = cache
import threading
state['e1'], state['e2'] = threading.Event(), threading.Event()
res = {}
def a():
    res['a'] = cache['total']
def b():
    state['e1'].wait(5)
    cache['base'] = 2
    state['e2'].set()
ta, tb = threading.Thread(target=a), threading.Thread(target=b)
ta.start(); tb.start(); ta.join(40); tb.join(40)
print(json.dumps({'a': res.get('a'), 'base': cache.get('base'), 'alive': ta.is_alive() or tb.is_alive()}))
'''


def strat_fresh(tier):
    # 'hold': how long thread A stays inside the cache (its miss handler) while B wants in; the long one exceeds every plausible
    # "give up waiting for the lock after a few seconds" timeout
    return st.fixed_dictionaries({'sub': st.just('fresh'), 'cls': st.just('all'), 'hold': st.just(0)})


def run_fresh(case):
    """a case names one (class, hold) combination, or 'all': both classes x short and long hold, run side by side"""
    combos = [(case['cls'], case.get('hold', 0.4))] if case.get('cls') != 'all' else \
        [(c, h) for c in ('LRI', 'LRU') for h in (0.4, 6.5)]
    out = Outcome()
    out.nontrivial = True
    import subprocess
    from vlib import core
    env = dict(os.environ, PYTHONDONTWRITEBYTECODE='1')
    procs = [(c, h, subprocess.Popen([sys.executable, '-B', '-c', FRESH_SCRIPT, core.REPO, c, str(h)], stdout=subprocess.PIPE,
                                     stderr=subprocess.PIPE, text=True, env=env)) for c, h in combos]
    for c, h, pr in procs:
        if out.ok:
            _fresh_result(dict(case, cls=c, hold=h), pr, out)
        else:
            pr.kill()
            pr.communicate()
    out.units = len(combos)
    return out


def _fresh_result(case, pr, out):
    import json
    import subprocess
    try:
        so, se = pr.communicate(timeout=90)
    except subprocess.TimeoutExpired:
        pr.kill()
        pr.communicate()
        return out.fail('c03.deadlock', 'fresh-interpreter probe with %s did not finish within 90 s' % case['cls'])
    if pr.returncode != 0 or not so.strip():
        raise HarnessError('fresh-interpreter probe failed: %s' % (se[-600:],))
    r = json.loads(so.strip().splitlines()[-1])
    out.label('cache_built_before_threads_exist')
    if case.get('hold', 0.4) > 5:
        out.label('lock_held_for_seconds')
    if r['alive']:
        return out.fail('c03.deadlock', '%s built in a fresh interpreter: the two threads did not finish (%r)' % (case['cls'], r))
    if r['a'] != [1, 1] or r['base'] != 2:
        return out.fail('c03.not-linearizable', '%s(max_size=8, on_miss=f) built straight after `import boltons.cacheutils` in a fresh interpreter, threads started later: '
                        "thread A: cache['total'] (miss; f reads cache.get('base') twice), thread B meanwhile: cache['base'] = 2.  A got %r and base ended as %r; "
                        'atomic operations allow only (1, 1) for A (B waits for the lookup to finish) and base == 2' % (case['cls'], tuple(r['a'] or ()), r['base']))
    return out


SUBS = {
    'sched': Sub('sched', strat, run, quick=168, thorough=9600, quick_shards=16),
    'bulk': Sub('bulk', strat_bulk, run_bulk, quick=128, thorough=4800, quick_shards=16),
    'fresh': Sub('fresh', strat_fresh, run_fresh, quick=1, thorough=2, quick_shards=1),
}
SUBS['fresh'].opt_pass = False
