"""C09 - chunking / windowing / splitting / grouping helpers conserve elements and order."""
import copy
import itertools

from hypothesis import strategies as st

from vlib.core import poison, Outcome, Sub, HarnessError

from boltons import iterutils

LEVEL = 'exploration'
RULE = ('per helper: generated sequences (lists of small ints / short strings / None, str, bytes, and the same content as a '
        'one-shot iterator or generator; lengths 0-40) and parameters drawn relative to the length (size in {1, len-1, len, len+1, '
        'divisors}, maxsplit around the number of separators, overlap up to chunk_size-1); oracles: slicing (chunked, windowed, '
        'pairwise), str.split/str.strip on an encoding of the items as characters (split, strip), first-occurrence / counting '
        'references (unique, redundant, bucketize, partition), and the stated range clauses for chunk_ranges (exhaustive for small '
        'parameters in the extra campaign). non-trivial = a boundary class: length multiple of size, size > length, separator at an '
        'end or repeated, maxsplit below the number of separators, overlap = chunk_size-1, unaligned offset with align. '
        'distinct = distinct canonical JSON of the case.')
ASSUMPTIONS = [
    'partition keys return real bools; windowed size >= 1; fill for bytes input is an int (the element type)',
    'chunk_ranges: input_size >= 0, chunk_size >= 1, 0 <= overlap < chunk_size, offset >= 0; one empty range accepted for input_size 0',
    'maxsplit is None or >= 0',
]

ITEMS = [0, 1, 2, 3, 'a', 'b', 'ab', None, None, 1.5]


def _call(f, *a, **kw):
    try:
        return ('ok', f(*a, **kw))
    except Exception as e:      # noqa
        return ('exc', type(e).__name__, str(e)[:200])


class GetitemSeq:
    """iterable only through the old sequence protocol (__getitem__ + __len__, no __iter__): legal for iter() and for loops"""
    def __init__(self, items):
        self._items = list(items)

    def __getitem__(self, i):
        return self._items[i]

    def __len__(self):
        return len(self._items)


def _wrap(items, form):
    if form == 'getitem':
        return GetitemSeq(items)
    if form == 'list':
        return list(items)
    if form == 'tuple':
        return tuple(items)
    if form == 'iter':
        return iter(list(items))
    if form == 'gen':
        return (x for x in list(items))
    raise HarnessError('form %r' % (form,))


_forms = st.sampled_from(['list', 'tuple', 'iter', 'gen', 'getitem'])
_item = st.integers(0, len(ITEMS) - 1)
_seq = st.lists(_item, max_size=40)


def _rel(n_strategy=None):
    # a size drawn relative to the length: encoded as (mode, k)
    return st.tuples(st.sampled_from(['abs', 'abs', 'len', 'len-', 'len+', 'div']), st.integers(1, 6)).map(list)


def _size(rel, n):
    mode, k = rel
    if mode == 'abs':
        return k
    if mode == 'len':
        return max(1, n)
    if mode == 'len-':
        return max(1, n - k)
    if mode == 'len+':
        return n + k
    if mode == 'div':
        divs = [d for d in range(1, n + 1) if n % d == 0] or [1]
        return divs[k % len(divs)]
    raise HarnessError('rel %r' % (rel,))


# ---------------------------------------------------------------------------
# chunked

def strat_chunk(tier):
    return st.fixed_dictionaries({
        'sub': st.just('chunk'),
        'kind': st.sampled_from(['items', 'items', 'str', 'bytes']),
        'seq': _seq, 'form': _forms, 'size': _rel(),
        'count': st.one_of(st.none(), st.integers(0, 6)),
        'fill': st.sampled_from(['unset', 'unset', 'none', 'value']),
        'bad_size': st.sampled_from([None] * 8 + [0, -1]),
    })


def run_chunk(case):
    out = Outcome()
    idx = case['seq']
    kind = case['kind']
    if kind == 'items':
        items = [ITEMS[i % len(ITEMS)] for i in idx]
        src_of = lambda: _wrap(items, case['form'])     # noqa
        fillv = 'FILL'
        flat = lambda chunks: [x for c in chunks for x in c]    # noqa
        ctype = list
    elif kind == 'str':
        items = ''.join('abcdefghij'[i % 10] for i in idx)
        src_of = lambda: items      # noqa
        fillv = '_'
        flat = lambda chunks: ''.join(chunks)   # noqa
        ctype = str
    else:
        items = bytes(97 + i % 10 for i in idx)
        src_of = lambda: items      # noqa
        fillv = 95
        flat = lambda chunks: b''.join(chunks)  # noqa
        ctype = bytes
    n = len(items)
    size = _size(case['size'], n)
    kw = {}
    if case['fill'] == 'none' and kind == 'items':
        kw['fill'] = None
    elif case['fill'] != 'unset':
        kw['fill'] = fillv
    count = case['count']
    if case['bad_size'] is not None:
        r = _call(iterutils.chunked, src_of(), case['bad_size'])
        if r[0] != 'exc' or r[1] != 'ValueError':
            return out.fail('c09.chunked.bad-size', 'chunked(%r, %r) -> %r, expected ValueError' % (items, case['bad_size'], r))
        out.label('bad_size')
        return out
    desc = 'chunked(%r as %s, %d, count=%r%s)' % (items, case['form'] if kind == 'items' else kind, size, count,
                                                   ', fill=%r' % kw['fill'] if kw else '')
    r = _call(iterutils.chunked, src_of(), size, count, **kw)
    if r[0] != 'ok' or not isinstance(r[1], list):
        return out.fail('c09.chunked.raises', '%s -> %r' % (desc, r))
    chunks = r[1]
    full = [items[i:i + size] for i in range(0, n, size)]
    if count is not None:
        full = full[:count]
    exp = []
    for c in full:
        c2 = list(c) if kind == 'items' else c
        if kw and len(c) < size:
            pad = size - len(c)
            if kind == 'items':
                c2 = c2 + [kw['fill']] * pad
            elif kind == 'str':
                c2 = c2 + fillv * pad
            else:
                c2 = c2 + bytes([fillv]) * pad
        exp.append(c2)
    if chunks != exp or any(type(c) is not ctype for c in chunks):
        return out.fail('c09.chunked.mismatch', '%s -> %r, expected %r' % (desc, chunks, exp))
    # stated clauses, independently of the reference list
    if not kw:
        covered = items[:size * count] if count is not None else items
        if flat(chunks) != (list(covered) if kind == 'items' else covered):
            return out.fail('c09.chunked.conservation', '%s: concatenation %r != input %r' % (desc, flat(chunks), covered))
    if any(len(c) != size for c in chunks[:-1]) or (chunks and not (1 <= len(chunks[-1]) <= size)):
        return out.fail('c09.chunked.sizes', '%s: chunk sizes %r' % (desc, [len(c) for c in chunks]))
    ri = _call(lambda: list(itertools.islice(iterutils.chunked_iter(src_of(), size, **kw), count)))
    if ri != ('ok', chunks):
        return out.fail('c09.chunked.iter-differs', '%s: chunked_iter gives %r, chunked %r' % (desc, ri, chunks))
    # the caller owns the result: emptying / extending it (a worker draining its chunks) must not show in a later, equal call
    exp2 = copy.deepcopy(exp)
    for c in chunks:
        poison(c)
    poison(chunks)
    del chunks[:len(chunks) // 2]
    r2 = _call(iterutils.chunked, src_of(), size, count, **kw)
    if r2 != ('ok', exp2):
        return out.fail('c09.chunked.result-aliased', '%s: after the caller modified the returned list, the same call gives %r, expected %r' % (desc, r2, exp2))
    out.nontrivial = n > 0 and (n % size == 0 or size > n or (count is not None and count * size < n))
    if n and n % size == 0:
        out.label('len_multiple_of_size')
    if size > n:
        out.label('size_gt_len')
    if kw:
        out.label('fill')
    return out


# ---------------------------------------------------------------------------
# windowed / pairwise

def strat_window(tier):
    return st.fixed_dictionaries({
        'sub': st.just('window'),
        'seq': _seq, 'form': _forms, 'size': _rel(),
        'fill': st.sampled_from(['unset', 'unset', 'none', 'value']),
    })


def run_window(case):
    out = Outcome()
    items = [ITEMS[i % len(ITEMS)] for i in case['seq']]
    n = len(items)
    size = _size(case['size'], n)
    kw = {}
    if case['fill'] == 'none':
        kw['fill'] = None
    elif case['fill'] == 'value':
        kw['fill'] = 'FILL'
    src_of = lambda: _wrap(items, case['form'])     # noqa
    if kw:
        exp = [tuple((items[i:i + size] + [kw['fill']] * size)[:size]) for i in range(n)]
    else:
        exp = [tuple(items[i:i + size]) for i in range(n - size + 1)]
    desc = 'windowed(%r as %s, %d%s)' % (items, case['form'], size, ', fill=%r' % kw['fill'] if kw else '')
    r = _call(iterutils.windowed, src_of(), size, **kw)
    if r != ('ok', exp):
        return out.fail('c09.windowed.mismatch', '%s -> %r, expected %r' % (desc, r, exp))
    ri = _call(lambda: list(iterutils.windowed_iter(src_of(), size, **kw)))
    if ri != ('ok', exp):
        return out.fail('c09.windowed.iter-differs', '%s: windowed_iter gives %r' % (desc, ri))
    pkw = {'end': kw['fill']} if kw else {}
    if kw:
        pexp = [tuple((items[i:i + 2] + [kw['fill']] * 2)[:2]) for i in range(n)]
    else:
        pexp = [tuple(items[i:i + 2]) for i in range(n - 1)]
    r = _call(iterutils.pairwise, src_of(), **pkw)
    if r != ('ok', pexp):
        return out.fail('c09.pairwise.mismatch', 'pairwise(%r%s) -> %r, expected %r' % (items, ', end=%r' % kw['fill'] if kw else '', r, pexp))
    ri = _call(lambda: list(iterutils.pairwise_iter(src_of(), **pkw)))
    if ri != ('ok', pexp):
        return out.fail('c09.pairwise.iter-differs', 'pairwise_iter(%r) gives %r' % (items, ri))
    for f, a, k2, e in ((iterutils.windowed, (size,), kw, exp), (iterutils.pairwise, (), pkw, pexp)):
        e2 = list(e)
        r1 = _call(f, src_of(), *a, **k2)
        if r1[0] == 'ok':
            poison(r1[1])
            del r1[1][:1]
        r2 = _call(f, src_of(), *a, **k2)
        if r2 != ('ok', e2):
            return out.fail('c09.%s.result-aliased' % f.__name__, '%s(%r, ...): after the caller modified the returned list, the same call gives %r, expected %r' % (
                f.__name__, items, r2, e2))
    out.nontrivial = size >= n or size == 1 or bool(kw)
    if size > n:
        out.label('size_gt_len')
    if size == n and n:
        out.label('size_eq_len')
    if kw:
        out.label('fill')
    return out


# ---------------------------------------------------------------------------
# split / strip  (oracle: str.split / str.strip on an encoding of the items)

def strat_split(tier):
    return st.fixed_dictionaries({
        'sub': st.just('split'),
        # 0 = separator A, 1 = separator B, 2.. = ordinary items
        'seq': st.lists(st.sampled_from([0, 0, 0, 1, 2, 3, 4, 5]), max_size=24),
        'form': _forms,
        'sep': st.sampled_from(['none', 'none', 'scalar', 'scalar', 'set', 'list', 'callable']),
        'maxsplit': st.one_of(st.none(), st.none(), st.integers(0, 5)),
        # for a scalar separator: which values stand for it in the stream.  'bytes': sep b'SEP', stream holds b'SEP' and the equal
        # but unhashable bytearray(b'SEP'); 'num': sep 1, stream holds 1, 1.0 and True; ordinary items then include unhashable lists
        'sepkind': st.sampled_from(['str', 'str', 'bytes', 'num']),
    })


def _decode_parts(enc, parts, items, none_mode):
    groups = []
    pos = 0
    for j, part in enumerate(parts):
        if none_mode:
            if part:
                pos = enc.index(part[0], pos)
        groups.append(items[pos:pos + len(part)])
        pos += len(part) + (0 if none_mode else 1)
    return groups


def run_split(case):
    out = Outcome()
    mode = case['sep']
    none_mode = mode == 'none'
    sepA = None if none_mode else 'SEP'
    raw = case['seq']
    if mode in ('set', 'list', 'callable'):
        seps = {0: 'SEP', 1: 'SEP2'}
    else:
        seps = {0: sepA}
    items = [seps[c] if c in seps else 'i%d' % c for c in raw]
    is_sep = [c in seps for c in raw]
    sep_arg = {'none': None, 'scalar': 'SEP', 'set': {'SEP', 'SEP2'}, 'list': ['SEP', 'SEP2'],
               'callable': (lambda x: x in ('SEP', 'SEP2'))}[mode]
    if mode == 'list' and case.get('form') == 'getitem':
        sep_arg = GetitemSeq(['SEP', 'SEP2'])       # the collection of separators itself is such a sequence
    one_shot_sep = mode == 'list' and case.get('form') in ('iter', 'gen')     # ... or a one-shot iterator ("an iterable of separators")
    sep_of = (lambda: iter(['SEP', 'SEP2'])) if one_shot_sep else (lambda: sep_arg)
    sepkind = case.get('sepkind', 'str') if mode == 'scalar' else 'str'
    if sepkind != 'str':
        forms = [b'SEP', bytearray(b'SEP')] if sepkind == 'bytes' else [1, 1.0, True]
        sep_arg = forms[0]
        items = [forms[i % len(forms)] if sp else (['i%d' % c] if c % 2 else 'i%d' % c) for i, (c, sp) in enumerate(zip(raw, is_sep))]
        out.label('separator_equal_not_identical:' + sepkind)
    maxsplit = case['maxsplit']
    enc = ''.join((' ' if none_mode else ',') if s else chr(0x100 + i) for i, s in enumerate(is_sep))
    parts = enc.split(None if none_mode else ',', -1 if maxsplit is None else maxsplit)
    if not none_mode and enc == '':
        parts = ['']        # ''.split(',') == [''] ; boltons: one empty group
    exp = _decode_parts(enc, parts, items, none_mode)
    src_of = lambda: _wrap(items, case['form'])     # noqa
    desc = 'split(%r as %s, sep=%s, maxsplit=%r)' % (items, case['form'], mode if mode == 'callable' else repr(sep_arg), maxsplit)
    r = _call(iterutils.split, src_of(), sep_of(), maxsplit)
    if r != ('ok', exp):
        return out.fail('c09.split.mismatch' + ('.maxsplit' if maxsplit is not None else ''),
                        '%s -> %r; str.split on the corresponding character string %r gives %r i.e. %r' % (desc, r, enc, parts, exp))
    ri = _call(lambda: list(iterutils.split_iter(src_of(), sep_of(), maxsplit)))
    if ri != ('ok', exp):
        return out.fail('c09.split.iter-differs', '%s: split_iter gives %r' % (desc, ri))
    exp_copy = copy.deepcopy(exp)
    for g in r[1]:
        poison(g)
    poison(r[1])
    r2 = _call(iterutils.split, src_of(), sep_of(), maxsplit)
    if r2 != ('ok', exp_copy):
        return out.fail('c09.split.result-aliased', '%s: after the caller modified the returned lists, the same call gives %r, expected %r' % (desc, r2, exp_copy))
    if mode in ('set', 'list') and type(sep_arg) in (set, list) and not one_shot_sep:
        # the caller's separator collection is changed IN PLACE between two calls (same object, new contents): the second call
        # must split on what the collection holds now
        sep_arg.remove('SEP2')
        is_sep_b = [c == 0 for c in raw]
        enc_b = ''.join(',' if s_ else chr(0x100 + i) for i, s_ in enumerate(is_sep_b))
        parts_b = enc_b.split(',', -1 if maxsplit is None else maxsplit) if enc_b else ['']
        exp_b = _decode_parts(enc_b, parts_b, items, False)
        rb = _call(iterutils.split, src_of(), sep_arg, maxsplit)
        if rb != ('ok', exp_b):
            return out.fail('c09.split.separators-changed-in-place', 'split(%r, sep=<the same %s object, now %r>, maxsplit=%r) -> %r, expected %r' % (
                items, type(sep_arg).__name__, sep_arg, maxsplit, rb, exp_b))
        rb = _call(lambda: list(iterutils.split_iter(src_of(), sep_arg, maxsplit)))
        if rb != ('ok', exp_b):
            return out.fail('c09.split.separators-changed-in-place', 'split_iter(%r, sep=<the same %s object, now %r>, maxsplit=%r) -> %r, expected %r' % (
                items, type(sep_arg).__name__, sep_arg, maxsplit, rb, exp_b))
        if type(sep_arg) is list:
            sep_arg.append('SEP2')
        else:
            sep_arg.add('SEP2')
        out.label('separator_collection_changed_in_place')
    nsep = sum(is_sep)
    out.nontrivial = nsep > 0 and (is_sep[0] or is_sep[-1] or any(a and b for a, b in zip(is_sep, is_sep[1:]))
                                   or (maxsplit is not None and maxsplit < nsep))
    if maxsplit is not None and maxsplit < nsep:
        out.label('maxsplit_lt_separators')
    if maxsplit == 0:
        out.label('maxsplit_0')
    if any(a and b for a, b in zip(is_sep, is_sep[1:])):
        out.label('consecutive_separators')
    # strip family on the same items (strip value = the first separator)
    sv = None if none_mode else (sep_arg if mode == 'scalar' else 'SEP')
    enc2 = ''.join('x' if it == sv else chr(0x100 + i) for i, it in enumerate(items))
    for name, f, fi, sf in (('lstrip', iterutils.lstrip, iterutils.lstrip_iter, str.lstrip),
                            ('rstrip', iterutils.rstrip, iterutils.rstrip_iter, str.rstrip),
                            ('strip', iterutils.strip, iterutils.strip_iter, str.strip)):
        kept = sf(enc2, 'x')
        start = enc2.index(kept) if kept else 0
        exp_s = items[start:start + len(kept)]
        r = _call(f, src_of(), sv)
        if r != ('ok', exp_s):
            return out.fail('c09.%s.mismatch' % name, '%s(%r, %r) -> %r, str.%s gives %r' % (name, items, sv, r, name, exp_s))
        if not all(a is b for a, b in zip(r[1], exp_s)):
            # the elements handed back must be the caller's own objects, not equal stand-ins (1 for 1.0 / True, ...)
            return out.fail('c09.%s.element-replaced' % name, '%s(%r, %r) -> %r: an element was replaced by an equal object, expected exactly %r' % (
                name, items, sv, r[1], exp_s))
        ri = _call(lambda: list(fi(src_of(), sv)))
        if ri != ('ok', exp_s):
            return out.fail('c09.%s.iter-differs' % name, '%s_iter(%r, %r) -> %r' % (name, items, sv, ri))
    return out


# ---------------------------------------------------------------------------
# unique / redundant / bucketize / partition

def strat_group(tier):
    return st.fixed_dictionaries({
        'sub': st.just('group'),
        'seq': st.lists(st.integers(0, 11), max_size=30),
        'form': _forms,
        'key': st.sampled_from(['none', 'mod3', 'attr', 'lower', 'attr_missing']),
        'transform': st.booleans(), 'filter': st.booleans(),
        'listkeys': st.lists(st.integers(0, 3), max_size=30),
    })


VALS = [0, 1, 2, 3, 4, 5, 1.0, 2.0, (1 + 1j), (2 + 0j), 7, 9]
SVALS = ['a', 'A', 'b', 'B', 'ab', 'Ab', 'aB', 'c', '', 'C', 'x', 'X']


def run_group(case):
    out = Outcome()
    key = case['key']
    if key == 'lower':
        items = [SVALS[i] for i in case['seq']]
        kf, karg = (lambda x: x.lower()), (lambda x: x.lower())
    elif key == 'mod3':
        items = [i for i in case['seq']]
        kf, karg = (lambda x: x % 3), (lambda x: x % 3)
    elif key == 'attr':
        items = [VALS[i] for i in case['seq']]
        kf, karg = (lambda x: getattr(x, 'real', x)), 'real'
    elif key == 'attr_missing':
        # an attribute name none of the items has: the item itself is the key.  Every item is a freshly built object, so
        # duplicates are equal but never identical (tuples, run-time strings, ints above the small-int cache)
        items = [[tuple([i % 4, 'x']), ''.join(['s', str(i % 3)]), int(str(1000 + i % 3)), float(i % 2)][i % 4] for i in case['seq']]
        kf, karg = (lambda x: x), 'no_such_attribute'
        out.label('string_key_attribute_missing')
    else:
        items = [VALS[i] if i % 2 else SVALS[i] for i in case['seq']]
        kf, karg = (lambda x: x), None
    src_of = lambda: _wrap(items, case['form'])     # noqa
    # unique
    seen, exp_u = [], []
    for x in items:
        k = kf(x)
        if not any(k == s and hash(k) == hash(s) for s in seen):
            seen.append(k)
            exp_u.append(x)
    r = _call(iterutils.unique, src_of(), karg)
    if r[0] != 'ok' or repr(r[1]) != repr(exp_u):
        return out.fail('c09.unique.mismatch', 'unique(%r, key=%s) -> %r, expected %r' % (items, key, r, exp_u))
    ri = _call(lambda: list(iterutils.unique_iter(src_of(), karg)))
    if ri[0] != 'ok' or repr(ri[1]) != repr(exp_u):
        return out.fail('c09.unique.iter-differs', 'unique_iter(%r, key=%s) -> %r' % (items, key, ri))
    # redundant
    order, groups = [], {}
    firsts = {}
    for x in items:
        k = kf(x)
        if k not in firsts:
            firsts[k] = x
        else:
            if k not in groups:
                groups[k] = [firsts[k]]
                order.append(k)
            groups[k].append(x)
    exp_groups = [groups[k] for k in order]
    exp_red = [g[1] for g in exp_groups]
    r = _call(iterutils.redundant, src_of(), karg)
    if r[0] != 'ok' or repr(r[1]) != repr(exp_red):
        return out.fail('c09.redundant.mismatch', 'redundant(%r, key=%s) -> %r, expected %r' % (items, key, r, exp_red))
    r = _call(iterutils.redundant, src_of(), karg, True)
    if r[0] != 'ok' or repr(r[1]) != repr(exp_groups):
        return out.fail('c09.redundant.groups-mismatch', 'redundant(%r, key=%s, groups=True) -> %r, expected %r' % (items, key, r, exp_groups))
    # bucketize
    bkey = kf if key != 'none' else (lambda x: isinstance(x, str))
    barg = karg if key != 'none' else bkey
    vt = (lambda x: (x, 'T')) if case['transform'] else None
    kfl = (lambda k: k not in (1, 'a', True)) if case['filter'] else None
    exp_b = {}
    for x in items:
        k = bkey(x)
        if kfl is None or kfl(k):
            exp_b.setdefault(k, []).append(vt(x) if vt else x)
    r = _call(iterutils.bucketize, src_of(), barg, vt, kfl)
    if r[0] != 'ok' or repr(r[1]) != repr(exp_b):
        return out.fail('c09.bucketize.mismatch', 'bucketize(%r, key=%s, transform=%r, filter=%r) -> %r, expected %r' % (
            items, key, case['transform'], case['filter'], r, exp_b))
    if kfl is None and vt is None:
        placed = sorted((repr(x) for b in r[1].values() for x in b))
        if placed != sorted(repr(x) for x in items):
            return out.fail('c09.bucketize.conservation', 'bucketize(%r) does not place every element exactly once: %r' % (items, r[1]))
    # list keys
    lk = (case['listkeys'] + [0] * len(items))[:len(items)]
    exp_l = {}
    for k, x in zip(lk, items):
        exp_l.setdefault(k, []).append(x)
    r = _call(iterutils.bucketize, list(items), list(lk))
    if r[0] != 'ok' or repr(r[1]) != repr(exp_l):
        return out.fail('c09.bucketize.listkeys-mismatch', 'bucketize(%r, key=%r) -> %r, expected %r' % (items, lk, r, exp_l))
    # partition (bool-valued key)
    pk = (lambda x: isinstance(x, str)) if key == 'none' else (lambda x: bool(kf(x)) if key != 'lower' else x.lower() < 'b')
    exp_p = ([x for x in items if pk(x)], [x for x in items if not pk(x)])
    r = _call(iterutils.partition, src_of(), pk)
    if r[0] != 'ok' or repr(r[1]) != repr(exp_p):
        return out.fail('c09.partition.mismatch', 'partition(%r) -> %r, expected %r' % (items, r, exp_p))
    out.nontrivial = bool(order)
    if order:
        out.label('has_duplicates')
    return out


# ---------------------------------------------------------------------------
# chunk_ranges

def check_ranges(input_size, chunk_size, offset, overlap, align):
    """Returns None or (kind, message)."""
    r = _call(lambda: list(iterutils.chunk_ranges(input_size, chunk_size, input_offset=offset, overlap_size=overlap, align=align)))
    desc = 'chunk_ranges(input_size=%d, chunk_size=%d, input_offset=%d, overlap_size=%d, align=%r)' % (
        input_size, chunk_size, offset, overlap, align)
    if r[0] != 'ok':
        return ('c09.ranges.raises', '%s -> %r' % (desc, r))
    rs = r[1]
    stop = offset + input_size

    def bad(msg):
        return ('c09.ranges.clause', '%s -> %r: %s' % (desc, rs, msg))
    if input_size == 0:
        if rs not in ([], [(offset, offset)]):
            return bad('for an empty input expected no range or one empty range')
        return None
    if not rs:
        return bad('no range')
    if rs[0][0] != offset:
        return bad('first range does not begin at input_offset')
    if rs[-1][1] != stop:
        return bad('last range does not end at input_offset+input_size')
    step = chunk_size - overlap
    for i, (b, e) in enumerate(rs):
        if not (b < e):
            return bad('empty or inverted range %r' % ((b, e),))
        if e - b > chunk_size:
            return bad('range %r longer than chunk_size' % ((b, e),))
        if i and b != rs[i - 1][1] - overlap:
            return bad('range %d begins at %d, previous end %d minus overlap is %d' % (i, b, rs[i - 1][1], rs[i - 1][1] - overlap))
        if align and i and b % step:
            return bad('range %d begins at %d, not on a multiple of chunk_size-overlap_size=%d' % (i, b, step))
    if input_size > 200000:
        # huge inputs: coverage follows arithmetically from the clauses above (first begins at the offset, each range begins
        # inside or at the end of its predecessor, last ends at the stop); additionally the number of ranges is the minimum
        if overlap == 0 and not align and len(rs) != -(-input_size // chunk_size):
            return bad('%d ranges, expected ceil(input_size / chunk_size) = %d' % (len(rs), -(-input_size // chunk_size)))
        return None
    covered = set()
    for b, e in rs:
        covered.update(range(b, e))
    if covered != set(range(offset, stop)):
        return bad('indices not covered: %r' % sorted(set(range(offset, stop)) - covered)[:5])
    return None


_SCALES = [2 ** 31, 2 ** 32, 2 ** 53, 2 ** 53 + 1, 10 ** 16, 2 ** 60, 2 ** 63, 2 ** 64, 10 ** 30]


def strat_ranges(tier):
    @st.composite
    def case(draw):
        if draw(st.integers(0, 5)) == 0:
            # scale class: sizes/offsets beyond 2**31, 2**53 (exact float range), 2**63/2**64; few (<= 40) chunks
            big = draw(st.sampled_from(_SCALES))
            k = draw(st.integers(1, 40))
            if draw(st.booleans()):
                cs = big + draw(st.integers(-3, 3))
                input_size = cs * k + draw(st.integers(-2, 2))
            else:
                cs = draw(st.integers(1, 12))
                input_size = draw(st.integers(0, 60))
            ov = draw(st.sampled_from([0, 0, 1, 7, cs // 2] + ([cs - 1] if cs < 100 else [])))
            return {'sub': 'ranges', 'input_size': max(0, input_size), 'chunk_size': cs,
                    'offset': draw(st.sampled_from([0, 3, big, big + 1, big - 1])),
                    'overlap': min(max(0, ov), cs - 1), 'align': draw(st.booleans())}
        cs = draw(st.integers(1, 12))
        return {'sub': 'ranges', 'input_size': draw(st.one_of(st.integers(0, 60), st.integers(0, 2000))),
                'chunk_size': cs, 'offset': draw(st.one_of(st.integers(0, 30), st.integers(0, 1000))),
                'overlap': draw(st.integers(0, cs - 1)), 'align': draw(st.booleans())}
    return case()


def run_ranges(case):
    out = Outcome()
    cs = max(1, case['chunk_size'])
    ov = min(max(0, case['overlap']), cs - 1)
    res = check_ranges(max(0, case['input_size']), cs, max(0, case['offset']), ov, bool(case['align']))
    if res:
        return out.fail(*res)
    step = cs - ov
    out.nontrivial = ov == cs - 1 or (case['align'] and case['offset'] % step != 0) or case['input_size'] % cs == 0
    if ov == cs - 1 and cs > 1:
        out.label('overlap_eq_chunk_minus_1')
    if case['input_size'] >= 2 ** 31 or case['offset'] >= 2 ** 31:
        out.label('ranges_beyond_2**31')
    if case['input_size'] >= 2 ** 53 or case['offset'] >= 2 ** 53:
        out.label('ranges_beyond_2**53')
    if case['align'] and case['offset'] % step:
        out.label('align_unaligned_offset')
    return out


def extra(tier, seed, deadline):
    """Exhaustive chunk_ranges sweep over small parameters."""
    import time
    max_in, max_cs, max_off = (24, 6, 9) if tier == 'quick' else (40, 9, 20)
    n = 0
    nt = set()
    failures = []
    samples = []
    for input_size in range(0, max_in + 1):
        if time.time() > deadline:
            break
        for cs in range(1, max_cs + 1):
            for ov in range(0, cs):
                for off in range(0, max_off + 1):
                    for align in (False, True):
                        n += 1
                        res = check_ranges(input_size, cs, off, ov, align)
                        nt.add('r%d.%d.%d.%d.%d' % (input_size, cs, ov, off, align))
                        if res and len(failures) < 3:
                            failures.append(('ranges', res[0], {'sub': 'ranges', 'input_size': input_size, 'chunk_size': cs,
                                                                'offset': off, 'overlap': ov, 'align': align}, res[1]))
    samples.append({'sub': 'ranges-exhaustive', 'case': {'input_size': '0..%d' % max_in, 'chunk_size': '1..%d' % max_cs,
                                                         'overlap': '0..chunk_size-1', 'offset': '0..%d' % max_off, 'align': 'both'}})
    return {'evaluations': n, 'nontrivial_hashes': nt, 'failures': failures, 'samples': samples,
            'labels': {'ranges.exhaustive_parameter_tuples': n},
            'info': {'chunk_ranges_exhaustive': {'input_size_max': max_in, 'chunk_size_max': max_cs, 'offset_max': max_off, 'tuples': n}}}


SUBS = {
    'chunk': Sub('chunk', strat_chunk, run_chunk, quick=12000, thorough=300000, quick_shards=4),
    'window': Sub('window', strat_window, run_window, quick=10000, thorough=300000, quick_shards=3),
    'split': Sub('split', strat_split, run_split, quick=16000, thorough=400000, quick_shards=4),
    'group': Sub('group', strat_group, run_group, quick=8000, thorough=200000, quick_shards=3),
    'ranges': Sub('ranges', strat_ranges, run_ranges, quick=8000, thorough=200000, quick_shards=2),
}
