"""C19 - line readers split exactly at line boundaries."""
import copy
import io
import json
import os
import tempfile

from hypothesis import strategies as st

from vlib.core import poison, POISON, Outcome, Sub, HarnessError, is_known

from boltons import strutils, jsonutils

LEVEL = 'exploration'
RULE = ('(a) texts over letters/digits/spaces and the 8 listed line breaks, oracle str.splitlines '
        '(+ final "" after a trailing break); non-trivial = >=2 different breaks or the substring " 28"/" 29". '
        '(b) files of \\n/\\r\\n separated lines (multi-byte UTF-8) read in reverse at many block sizes; '
        'non-trivial = >=3 lines and some blocksize < len(content). '
        '(c) JSON Lines files with blank/corrupt lines and records aligned around the 4096 block edge; '
        'non-trivial = file longer than one block or containing blank/corrupt lines. '
        'distinct = distinct canonical JSON of the case.')
ASSUMPTIONS = [
    'lone \\r is not generated for reverse_iter_lines/JSONLIterator (statement: \\n or \\r\\n separated)',
    '\\x1c-\\x1e are not generated for iter_splitlines (not in the statement\'s list of breaks)',
    'whether a trailing newline contributes a leading empty string in reverse_iter_lines is accepted either way, consistently across block sizes',
]

BREAKS = ['\n', '\r', '\r\n', '\x0b', '\x0c', '\x85', '\u2028', '\u2029']
BREAK_CHARS = set('\n\r\x0b\x0c\x85\u2028\u2029')

# ---------------------------------------------------------------------------
# (a) iter_splitlines / indent

_piece_a = st.one_of(
    st.sampled_from(BREAKS),
    st.sampled_from(BREAKS),
    st.sampled_from(['a', 'b', ' ', '2', '8', '9', '0', ' 28', ' 29', 'x20', '\t', '\xe9', '\u2027', '\u202a', 'page 2', '\\n']),
    st.text(alphabet='ab 289x', min_size=0, max_size=4),
)


def strat_a(tier):
    return st.fixed_dictionaries({
        'sub': st.just('a'),
        'pieces': st.lists(_piece_a, min_size=0, max_size=14 if tier == 'quick' else 30),
        'margin': st.sampled_from(['  ', '>', '', '\t']),
        'newline': st.sampled_from(['\n', '\r\n', '|']),
    })


def expected_splitlines(t):
    exp = t.splitlines()
    if t and t[-1] in BREAK_CHARS:
        exp.append('')
    return exp


def run_a(case):
    out = Outcome()
    t = ''.join(case['pieces'])
    if any(c in t for c in '\x1c\x1d\x1e'):
        raise HarnessError('separator outside the domain')
    exp = expected_splitlines(t)
    kinds = {c for c in t if c in BREAK_CHARS}
    if '\r\n' in t:
        kinds.add('\r\n')
    out.nontrivial = len(kinds) >= 2 or ' 28' in t or ' 29' in t
    if ' 28' in t or ' 29' in t:
        out.label('has_space28_or_29')
    if '\u2028' in t or '\u2029' in t:
        out.label('has_u2028_9')
    if '\r\n' in t:
        out.label('has_crlf')
    if t and t[-1] in BREAK_CHARS:
        out.label('ends_with_break')
    try:
        got = list(strutils.iter_splitlines(t))
    except Exception as e:
        return out.fail('a.raises', 'iter_splitlines(%r) raised %r' % (t, e))
    if got != exp:
        return out.fail('a.splitlines-mismatch', 'iter_splitlines(%r) = %r, expected %r' % (t, got, exp))
    for line in got:
        if any(c in BREAK_CHARS for c in line):
            return out.fail('a.break-inside-line', 'line %r of %r contains a break' % (line, t))
    m, nl = case['margin'], case['newline']
    exp_ind = nl.join((m + l if l else l) for l in exp)
    try:
        got_ind = strutils.indent(t, m, newline=nl)
    except Exception as e:
        return out.fail('a.indent-raises', 'indent(%r) raised %r' % (t, e))
    if got_ind != exp_ind:
        return out.fail('a.indent-mismatch', 'indent(%r, %r, %r) = %r, expected %r' % (t, m, nl, got_ind, exp_ind))
    return out


# ---------------------------------------------------------------------------
# (b) reverse_iter_lines

_line_b = st.one_of(
    st.just(''),
    st.text(alphabet='ab \xe9\u20ac\U0001f600x', min_size=0, max_size=6),
    st.text(alphabet='abcdefgh', min_size=1, max_size=12),
    # characters that str.splitlines treats as line breaks but that do not end a line of a *file* (only \n, \r, \r\n do)
    st.text(alphabet='ab\x0b\x0c\x1c\x1d\x1e\x85\u2028\u2029', min_size=1, max_size=5),
)


def strat_b(tier):
    return st.fixed_dictionaries({
        'sub': st.just('b'),
        'lines': st.lists(_line_b, min_size=0, max_size=8 if tier == 'quick' else 16),
        'seps': st.lists(st.sampled_from(['\n', '\n', '\r\n']), min_size=1, max_size=4),
        'final': st.booleans(),
        # 'textfile_w+': a text-mode handle opened for writing and reading, the content just written through it (not flushed)
        'kind': st.sampled_from(['bytesio', 'binfile', 'textfile', 'textfile_w+']),
        'blocksizes': st.lists(st.sampled_from([1, 2, 3, 4, 5, 7, 8, 11, 16, -1, 0, 1000, 4096]),
                               min_size=2, max_size=5, unique=True),
        # scale class: one of the lines is blown up to tens of thousands of (non-uniform) characters, read with the default block size
        'long': st.integers(0, 15).flatmap(lambda i: st.none() if i else st.tuples(st.integers(0, 7), st.sampled_from([4097, 66000, 70001, 140000])).map(list)),
    })


def _long_line(n):
    out = []
    i = 0
    size = 0
    while size < n:
        t = '%d,' % (i * 7919)
        out.append(t)
        size += len(t)
        i += 1
    return ''.join(out)[:n]


def _content_b(case):
    lines, seps = list(case['lines']), case['seps']
    if case.get('long'):
        idx, n = case['long']
        if not lines:
            lines = ['x']
        lines[idx % len(lines)] = _long_line(n) + lines[idx % len(lines)]
    parts = []
    for i, l in enumerate(lines):
        if any(c in l for c in '\n\r'):
            raise HarnessError('line with a break')
        parts.append(l)
        if i < len(lines) - 1 or case['final']:
            parts.append(seps[i % len(seps)])
    return ''.join(parts)


def _open_kind(kind, data, tmpdir):
    if kind == 'bytesio':
        return io.BytesIO(data)
    path = os.path.join(tmpdir, 'f.txt')
    with open(path, 'wb') as f:
        f.write(data)
    if kind == 'binfile':
        return open(path, 'rb')
    if kind == 'textfile_w+':
        f = open(path, 'w+', encoding='utf-8', newline='')
        f.write(data.decode('utf-8'))       # stays in the text layer's buffer until someone flushes
        return f
    return open(path, 'r', encoding='utf-8')


def run_b(case):
    out = Outcome()
    text = _content_b(case)
    data = text.encode('utf-8')
    n = len(data)
    kind = case['kind']
    as_text = kind in ('textfile', 'textfile_w+')
    # lines of a file end at \n, \r\n (and \r): the byte-level split, decoded for text handles
    base = [l.decode('utf-8') for l in data.splitlines()] if as_text else data.splitlines()
    # the two accepted readings of "lines" for a file that ends with a newline
    empty = '' if as_text else b''
    exp_a = list(reversed(base))
    exp_b = ([empty] + exp_a) if (data.endswith(b'\n')) else exp_a
    bss = []
    blocksizes = case['blocksizes']
    if case.get('long'):
        blocksizes = [b for b in blocksizes if b >= 16 or b <= 0][:2] + [4096, 8192]    # tiny blocks on a huge line: quadratic, and not the point
        out.label('long_line:%d' % case['long'][1])
    for b in blocksizes:
        b = {0: max(1, n), -1: max(1, n - 1)}.get(b, b)
        if b == 1000:
            b = n + 1
        bss.append(b)
    out.nontrivial = len(base) >= 3 and any(b < n for b in bss)
    if any(b < n for b in bss):
        out.label('block_smaller_than_file')
    if '\r\n' in text:
        out.label('crlf')
    if n != len(text):
        out.label('multibyte')
    if text.startswith('\n') or text.startswith('\r\n'):
        out.label('leading_blank_line')
    if case['final']:
        out.label('final_newline')
    if kind == 'textfile_w+':
        out.label('unflushed_text_handle')
    results = []
    with tempfile.TemporaryDirectory(prefix='c19b') as tmpdir:
        for bi, b in enumerate(bss):
            f = _open_kind(kind, data, tmpdir) if (bi or kind == 'textfile_w+') else None
            try:
                if f is None:
                    # the file object is referenced by nobody but the call itself (a one-liner over open(...))
                    got = list(jsonutils.reverse_iter_lines(_open_kind(kind, data, tmpdir), blocksize=b))
                else:
                    got = list(jsonutils.reverse_iter_lines(f, blocksize=b))
            except Exception as e:
                return out.fail('b.raises', 'reverse_iter_lines(%r, blocksize=%d, %s) raised %r' % (data, b, kind, e))
            finally:
                try:
                    if f is not None:
                        f.close()
                except Exception:
                    pass
            results.append((b, got))
    for b, got in results:
        want_type = str if as_text else bytes
        for item in got:
            if type(item) is not want_type:
                return out.fail('b.type', 'blocksize %d on %s yields %r (type %s)' % (b, kind, item, type(item).__name__))
            nl, cr = ('\n', '\r') if as_text else (b'\n', b'\r')
            if nl in item or item.endswith(cr):
                return out.fail('b.break-in-line', 'content %r blocksize %d (%s): item %r keeps a line break; got %r' % (
                    data, b, kind, item, got))
        if got != exp_a and got != exp_b:
            return out.fail('b.lines-mismatch', 'content %s blocksize %d (%s): got %s, expected %s%s' % (
                _dsc(data), b, kind, _short(got), _short(exp_a), '' if exp_a == exp_b else ' (or with a leading empty string)'))
    first = results[0][1]
    for b, got in results[1:]:
        if got != first:
            return out.fail('b.blocksize-dependent', 'content %s (%s): blocksize %d -> %s but blocksize %d -> %s' % (
                _dsc(data), kind, results[0][0], _short(first), b, _short(got)))
    return out


# ---------------------------------------------------------------------------
# (c) JSONLIterator

CORRUPT = ['{"k": 1', 'bareword', '[1, 2', '{]', '"unterminated', '{"a":}', '\xe9{', '}',
           # undecodable because it is nested deeper than the decoder can follow (json.loads raises RecursionError, not ValueError)
           '[' * 3000, '{"a":' * 3000,
           # not valid UTF-8 (binary-mode files only): a record torn inside a multi-byte character, stray bytes.  Written with
           # surrogateescape: '\udcc3' stands for the byte 0xC3
           '{"id": 19, "name": "caf\udcc3', '\udcff\udcfe{}', '"\udce2\udc82"']
DEEP = {8, 9}
NOT_UTF8 = {10, 11, 12}
_json_val = st.one_of(
    st.integers(-5, 1000),
    st.text(alphabet='ab \xe9\u20ac\U0001f600"\\', max_size=5),
    st.lists(st.integers(0, 9), max_size=3),
    st.none(), st.booleans(),
)
_rec = st.one_of(
    st.tuples(st.just('obj'), _json_val, st.sampled_from([None, None, None, -2, -1, 0, 1, 2])),
    st.tuples(st.just('obj'), _json_val, st.just(None)),
    st.tuples(st.just('blank'), st.integers(0, 3), st.just(None)),
    st.tuples(st.just('corrupt'), st.integers(0, len(CORRUPT) - 1), st.just(None)),
).map(list)


def strat_c(tier):
    return st.fixed_dictionaries({
        'sub': st.just('c'),
        'recs': st.lists(_rec, min_size=0, max_size=12 if tier == 'quick' else 40),
        'sep': st.sampled_from(['\n', '\n', '\r\n']),
        'final': st.booleans(),
        'text_mode': st.booleans(),
        'dict_wrap': st.booleans(),
    })


def _build_c(case):
    sep = case['sep']
    chunks = []
    offset = 0
    objs = []      # per line: ('obj', value) | ('blank',) | ('corrupt',)
    aligned = 0
    recs = case['recs']
    for i, (k, v, align) in enumerate(recs):
        if k == 'obj':
            val = {'v': v, 'i': i} if case['dict_wrap'] else v
            if align is not None and aligned < 3:
                aligned += 1
                val = {'v': v, 'i': i, 'pad': ''}
                line = json.dumps(val, ensure_ascii=False)
                cur_end = offset + len(line.encode('utf-8', 'surrogateescape'))
                target = ((cur_end // 4096) + 1) * 4096 + align
                val['pad'] = 'p' * (target - cur_end)
            line = json.dumps(val, ensure_ascii=False)
            objs.append(('obj', val))
        elif k == 'blank':
            line = ' ' * v
            objs.append(('blank',))
        elif k == 'corrupt':
            ci = v % len(CORRUPT)
            if ci in NOT_UTF8 and case['text_mode']:
                ci %= 8         # a text-mode file cannot even be iterated over such bytes: outside the statement
            line = CORRUPT[ci]
            objs.append(('corrupt', 'deep') if ci in DEEP else (('corrupt', 'not-utf8') if ci in NOT_UTF8 else ('corrupt',)))
        else:
            raise HarnessError('bad record kind %r' % (k,))
        last = i == len(recs) - 1
        piece = line + ('' if (last and not case['final']) else sep)
        chunks.append(piece)
        offset += len(piece.encode('utf-8', 'surrogateescape'))
    return ''.join(chunks).encode('utf-8', 'surrogateescape'), objs


def unpoison(o):
    if type(o) is list and o and o[-1] == POISON:
        o.pop()
    elif type(o) is dict:
        o.pop(POISON, None)


def _drain(it):
    got = []
    try:
        for o in it:
            got.append(o)
    except Exception as e:
        return got, e
    return got, None


def run_c(case):
    out = Outcome()
    data, objs = _build_c(case)
    good = [o[1] for o in objs if o[0] == 'obj']
    has_corrupt = any(o[0] == 'corrupt' for o in objs)
    has_blank = any(o[0] == 'blank' for o in objs)
    out.nontrivial = len(data) > 4096 or ((has_corrupt or has_blank) and len(good) >= 2)
    if len(data) > 4096:
        out.label('longer_than_block')
    if has_corrupt:
        out.label('corrupt_line')
    if any(o[0] == 'corrupt' and o[1:] == ('not-utf8',) for o in objs):
        out.label('corrupt_line_not_utf8')
    if has_blank:
        out.label('blank_line')
    if objs and objs[0][0] == 'blank':
        out.label('leading_blank')
    with tempfile.TemporaryDirectory(prefix='c19c') as tmpdir:
        path = os.path.join(tmpdir, 'f.jsonl')
        with open(path, 'wb') as f:
            f.write(data)

        def opn():
            if case['text_mode']:
                return open(path, 'r', encoding='utf-8')
            return open(path, 'rb')

        for reverse in (False, True):
            for ignore in (True, False):
                f = opn()
                try:
                    try:
                        it = jsonutils.JSONLIterator(f, ignore_errors=ignore, reverse=reverse)
                    except Exception as e:
                        return out.fail('c.ctor-raises', 'JSONLIterator(reverse=%r) on %s raised %r' % (
                            reverse, _dsc(data), e))
                    got, exc = _drain(it)
                finally:
                    try:
                        f.close()
                    except Exception:
                        pass
                desc = 'reverse=%r ignore_errors=%r text_mode=%r file=%s' % (reverse, ignore, case['text_mode'], _dsc(data))
                if ignore or not has_corrupt:
                    exp = list(reversed(good)) if reverse else good
                    if exc is not None:
                        return out.fail('c.raises', '%s: raised %r after %d objects' % (desc, exc, len(got)))
                    if got != exp:
                        return out.fail('c.objects-mismatch.' + ('reverse' if reverse else 'forward'),
                                        '%s: got %s expected %s' % (desc, _short(got), _short(exp)))
                    # the decoded objects belong to the consumer: changing them must not change what reading the file again yields
                    for o in got:
                        poison(o)
                    f = opn()
                    try:
                        again, exc2 = _drain(jsonutils.JSONLIterator(f, ignore_errors=ignore, reverse=reverse))
                    finally:
                        try:
                            f.close()
                        except Exception:       # noqa  (a text handle is detached by the reverse reader)
                            pass
                    fresh = copy.deepcopy(list(reversed(good)) if reverse else good)
                    for o in fresh:
                        unpoison(o)
                    if exc2 is not None or again != fresh:
                        return out.fail('c.objects-aliased', '%s: reading the same file a second time, after the consumer changed the objects of the first pass, gives %s, '
                                        'expected %s' % (desc, _short(again) if exc2 is None else repr(exc2), _short(fresh)))
                    good = fresh if not reverse else list(reversed(fresh))
                else:
                    seq = list(reversed(objs)) if reverse else objs
                    exp = []
                    for o in seq:
                        if o[0] == 'corrupt':
                            break
                        if o[0] == 'obj':
                            exp.append(o[1])
                    if exc is None:
                        return out.fail('c.corrupt-not-raised', '%s: no exception, got %s' % (desc, _short(got)))
                    deep_first = next((o for o in seq if o[0] == 'corrupt'), ('corrupt', None))[1:] == ('deep',)
                    if not isinstance(exc, ValueError) and not (deep_first and isinstance(exc, RecursionError)):
                        return out.fail('c.corrupt-wrong-exception', '%s: raised %r' % (desc, exc))
                    if got != exp:
                        return out.fail('c.objects-before-corrupt-mismatch', '%s: got %s expected %s' % (
                            desc, _short(got), _short(exp)))
    return out


def _short(objs):
    r = repr([({'i': o.get('i'), 'v': o.get('v')} if isinstance(o, dict) else o) for o in objs])
    return r if len(r) < 500 else r[:500] + '...'


def _dsc(data):
    if len(data) < 200:
        return repr(data)
    return '<%d bytes: %r...%r>' % (len(data), data[:40], data[-40:])


SUBS = {
    'a': Sub('a', strat_a, run_a, quick=12000, thorough=400000, doc='iter_splitlines / indent vs str.splitlines'),
    'b': Sub('b', strat_b, run_b, quick=5000, thorough=160000, doc='reverse_iter_lines at every block size'),
    'c': Sub('c', strat_c, run_c, quick=1600, thorough=48000, doc='JSONLIterator forward == reversed(reverse)'),
}
