"""C10 - priority queues: highest priority first, FIFO among equals; both back ends identical."""
from hypothesis import strategies as st

from vlib.core import Outcome, Sub, HarnessError

from boltons import queueutils, listutils
from boltons.queueutils import HeapPriorityQueue, SortedPriorityQueue
from boltons.listutils import BarrelList

LEVEL = 'exploration'
RULE = ('histories (<=60 ops) of add/remove/pop/peek/len/bulk-add over a pool of 8 tasks + bulk tasks and tie-heavy priorities '
        '(None, 0, 1, 1.0, -1, 2.5, 10, True), run in lock-step on HeapPriorityQueue, SortedPriorityQueue and a reference '
        '(list of live (task, -float(p or 0), arrival counter)), then both queues are drained and the complete pop order compared. '
        'The sorted back end (BarrelList) is run with its split factor scaled down so that it consists of many sub-lists at '
        'small sizes (sub "pq"), at its real factor with 23k-60k entries (sub "scale"), and is itself compared with list '
        '(sub "blist"). non-trivial: >=2 live entries of equal effective priority were popped, or a re-add/remove preceded a '
        'pop; blist/scale: the BarrelList had >=2 sub-lists. distinct = distinct canonical JSON of the case.')
ASSUMPTIONS = [
    'quick tier scales BarrelList._size_factor (a tuning constant) down to 2 so that sub-list splitting is reached with tens '
    'of entries; if the attribute disappears the check runs at real scale only',
    'BarrelList sub-check uses only what the queues do to their back end: insert at positions in [0, len] (bisect.insort), pop(0), and reads (indexing, len, iteration, index)',
]

PRIOS = [None, 0, 1, 1.0, -1, 2.5, 10, True]
NT = 8


def _call(f, *a, **kw):
    try:
        return ('ok', f(*a, **kw))
    except Exception as e:      # noqa
        return ('exc', type(e).__name__, str(e)[:200])


# custom priority_key functions (constructor argument): the key receives the priority exactly as passed to add(), None included
PKEYS = {
    'default': None,
    'none_last': lambda p: float('inf') if p is None else -float(p),
    'none_first': lambda p: float('-inf') if p is None else -float(p),
    'ascending': lambda p: float(p or 0) + (0.5 if p is None else 0.0),
}
BAD_PRIORITY = 10 ** 400        # float() of it raises OverflowError with every key above: add() must fail without changing anything


def eff(p):
    return -float(p or 0)


class RefPQ:
    def __init__(self, pkey=None):
        self.live = {}      # task -> (eff prio, counter)
        self.n = 0
        self.pkey = pkey or eff

    def add(self, task, p):
        self.live[task] = (self.pkey(p), self.n)
        self.n += 1

    def remove(self, task):
        del self.live[task]

    def top(self):
        if not self.live:
            raise IndexError
        return min(self.live, key=self.live.get)

    def order(self):
        return sorted(self.live, key=self.live.get)


class scaled_factor:
    def __init__(self, factor):
        self.factor = factor

    def __enter__(self):
        self.had = hasattr(BarrelList, '_size_factor')
        if self.had and self.factor is not None:
            self.old = BarrelList._size_factor
            BarrelList._size_factor = self.factor
        return self

    def __exit__(self, *a):
        if self.had and self.factor is not None:
            BarrelList._size_factor = self.old


_t = st.integers(0, NT - 1)
_p = st.integers(0, len(PRIOS) - 1)
_pattern = st.sampled_from(['equal', 'asc', 'desc', 'table', 'two'])


# default argument of pop/peek: absent, a distinct marker, None (the usual idiom; None is also one of the tasks),
# or the very object that is at the head of the queue
_dflt = st.sampled_from([False, False, True, True, 'none', 'head'])
TASKS = ['t0', 't1', 't2', 't3', 't4', None, 0, '']


def T(i):
    return TASKS[i % len(TASKS)]


def _pq_op(bulk_sizes):
    return st.one_of(
        st.tuples(st.just('add'), _t, _p), st.tuples(st.just('add'), _t, _p), st.tuples(st.just('add'), _t, _p),
        st.tuples(st.just('add_default'), _t),
        st.tuples(st.just('add_bad'), _t),
        st.tuples(st.just('remove'), _t),
        st.tuples(st.just('pop'), _dflt), st.tuples(st.just('pop'), _dflt),
        st.tuples(st.just('peek'), _dflt),
        st.tuples(st.just('len')),
        st.tuples(st.just('bulk'), bulk_sizes, _pattern, st.lists(_p, min_size=1, max_size=5)),
        st.tuples(st.just('bulk'), st.sampled_from([64, 70, 100, 130]), _pattern, st.lists(_p, min_size=1, max_size=5)),
        # mass removal / re-prioritising of the bulk tasks (every 2nd, 2 of 3, ...): most of the back end becomes dead entries
        st.tuples(st.just('bulk_remove'), st.sampled_from([2, 3, 4]), st.integers(0, 3), st.booleans()),
        st.tuples(st.just('bulk_readd'), st.sampled_from([2, 3]), st.integers(0, 2), _p),
        # the k best live tasks are removed (not popped): a run of dead entries at the very head of the back end
        st.tuples(st.just('remove_head'), st.sampled_from([2, 5, 40, 1200, 2500])),
    ).map(list)


def strat_pq(tier):
    return st.fixed_dictionaries({
        'sub': st.just('pq'),
        'factor': st.sampled_from([2, 2, 2, 3, 1]),
        'pkey': st.sampled_from(['default', 'default', 'default', 'none_last', 'none_first', 'ascending']),
        'ops': st.lists(_pq_op(st.integers(1, 40)), max_size=40 if tier == 'quick' else 60),
    })


def strat_scale(tier):
    return st.fixed_dictionaries({
        'sub': st.just('scale'),
        'first': st.tuples(st.integers(23000, 42000 if tier == 'quick' else 60000), _pattern, st.lists(_p, min_size=1, max_size=5)).map(list),
        'ops': st.tuples(st.sampled_from([[], [['remove_head', 1200], ['pop', False]], [['remove_head', 2500], ['pop', True], ['peek', False]]]),
                         st.lists(_pq_op(st.integers(1, 300)), max_size=40)).map(lambda t: t[0] + t[1]),
        'drain': st.sampled_from([0, 0, 0, 500, 3000]),     # 0 = drain completely
    })


def _bulk_prios(n, pattern, table):
    if pattern == 'equal':
        return [PRIOS[table[0]]] * n
    if pattern == 'asc':
        return list(range(n))
    if pattern == 'desc':
        return list(range(n, 0, -1))
    if pattern == 'two':
        return [PRIOS[table[i % 2 % len(table)]] for i in range(n)]
    return [PRIOS[table[(i * 7 + i // 3) % len(table)]] for i in range(n)]


def _run_history(case, out, factor, first=None, drain_limit=None):
    with scaled_factor(factor) as sf:
        pkey = PKEYS[case.get('pkey', 'default')]
        kw = {'priority_key': pkey} if pkey is not None else {}
        qs = [('heap', HeapPriorityQueue(**kw)), ('sorted', SortedPriorityQueue(**kw))]
        ref = RefPQ(pkey)
        if pkey is not None:
            out.label('custom_priority_key')
        bulk_id = [0]
        tie_pop = [False]
        readd = [False]
        popped_after_readd = [False]

        def fail(kind, msg):
            out.fail('c10.' + kind, msg)
            return False

        def do_add(task, p):
            if task in ref.live:
                readd[0] = True
            for nm, q in qs:
                r = _call(q.add, task, p)
                if r != ('ok', None):
                    return fail('add', '%s.add(%r, %r) -> %r' % (nm, task, p, r))
            ref.add(task, p)
            return True

        def do_bulk(n, pattern, table):
            for p in _bulk_prios(n, pattern, table):
                bulk_id[0] += 1
                if not do_add('b%d' % bulk_id[0], p):
                    return False
            return True

        def note_pop(task):
            pr = ref.live[task][0]
            if sum(1 for v in ref.live.values() if v[0] == pr) >= 2:
                tie_pop[0] = True
            if readd[0]:
                popped_after_readd[0] = True

        if first is not None:
            if not do_bulk(first[0], first[1], first[2]):
                return None
        for step, op in enumerate(case['ops']):
            name = op[0]
            where = 'step %d %r (queue size %d)' % (step, op, len(ref.live))
            if name == 'add':
                if not do_add(T(op[1]), PRIOS[op[2]]):
                    return None
            elif name == 'add_bad':
                # a priority the key function rejects: the exception reaches the caller and the queue is exactly as before,
                # also when the task is already queued
                task = T(op[1])
                for nm, q in qs:
                    r = _call(q.add, task, BAD_PRIORITY)
                    if r[0] != 'exc' or r[1] != 'OverflowError':
                        fail('add', '%s: %s.add(%r, 10**400) -> %r, expected the OverflowError of the priority key' % (where, nm, task, r))
                        return None
                if task in ref.live:
                    readd[0] = True
            elif name == 'add_default':
                task = T(op[1])
                if task in ref.live:
                    readd[0] = True
                for nm, q in qs:
                    r = _call(q.add, task)
                    if r != ('ok', None):
                        fail('add', '%s: %s.add(%r) -> %r' % (where, nm, task, r))
                        return None
                ref.add(task, None)
            elif name == 'remove':
                task = T(op[1])
                exp = ('ok', None) if task in ref.live else ('exc', 'KeyError')
                for nm, q in qs:
                    r = _call(q.remove, task)
                    if r[:2] != exp[:2]:
                        fail('remove', '%s: %s.remove(%r) -> %r, reference %r' % (where, nm, task, r, exp))
                        return None
                if task in ref.live:
                    ref.remove(task)
                    readd[0] = True
            elif name in ('pop', 'peek'):
                with_default = bool(op[1])
                dflt = 'DEFAULT'
                if op[1] == 'none':
                    dflt = None
                elif op[1] == 'head':
                    dflt = ref.top() if ref.live else 't0'
                if ref.live:
                    t = ref.top()
                    exp = ('ok', t)
                elif with_default:
                    exp = ('ok', dflt)
                else:
                    exp = ('exc', 'IndexError')
                for nm, q in qs:
                    f = getattr(q, name)
                    r = _call(f, dflt) if with_default else _call(f)
                    if r[:2] != exp[:2] or (r[0] == 'ok' and type(r[1]) is not type(exp[1])):
                        fail(name, '%s: %s.%s() -> %r, reference %r; live entries (task: (-priority, arrival)) %s' % (
                            where, nm, name, r, exp, _sh(ref)))
                        return None
                if ref.live and name == 'pop':
                    note_pop(t)
                    ref.remove(t)
            elif name == 'len':
                pass
            elif name == 'bulk':
                if not do_bulk(op[1], op[2], op[3]):
                    return None
            elif name == 'remove_head':
                for task in ref.order()[:op[1]]:
                    for nm, q in qs:
                        r = _call(q.remove, task)
                        if r != ('ok', None):
                            fail('remove', '%s: %s.remove(%r) -> %r' % (where, nm, task, r))
                            return None
                    ref.remove(task)
                readd[0] = True
            elif name in ('bulk_remove', 'bulk_readd'):
                mod, rem = op[1], op[2] % op[1]
                victims = [t for t in list(ref.live) if isinstance(t, str) and t[:1] == 'b' and t[1:].isdigit() and
                           ((int(t[1:]) % mod == rem) != (name == 'bulk_remove' and bool(op[3])))]
                for task in victims:
                    if name == 'bulk_remove':
                        for nm, q in qs:
                            r = _call(q.remove, task)
                            if r != ('ok', None):
                                fail('remove', '%s: %s.remove(%r) -> %r' % (where, nm, task, r))
                                return None
                        ref.remove(task)
                    else:
                        if not do_add(task, PRIOS[op[3]]):
                            return None
                if victims:
                    readd[0] = True
            else:
                raise HarnessError('op %r' % (op,))
            for nm, q in qs:
                r = _call(len, q)
                if r != ('ok', len(ref.live)):
                    fail('len', '%s: len(%s) = %r, reference %d' % (where, nm, r, len(ref.live)))
                    return None
        nlists = len(getattr(qs[1][1]._pq, 'lists', [0]))
        # drain
        order = ref.order()
        if drain_limit is not None:
            order = order[:drain_limit]
        for nm, q in qs:
            got = []
            for i in range(len(order)):
                r = _call(q.pop)
                if r[0] != 'ok':
                    fail('drain', 'draining %s: pop #%d -> %r, reference %r' % (nm, i, r, order[i]))
                    return None
                got.append(r[1])
            if got != order:
                i = next(j for j in range(len(order)) if got[j] != order[j])
                fail('drain', 'draining %s: pop #%d returned %r, reference %r (priority/arrival %r vs %r); sorted back end had %d sub-lists' % (
                    nm, i, got[i], order[i], ref.live.get(got[i]), ref.live.get(order[i]), nlists))
                return None
            if drain_limit is None:
                r = _call(q.pop)
                if r[0] != 'exc' or r[1] != 'IndexError':
                    fail('drain', '%s: pop on drained queue -> %r' % (nm, r))
                    return None
                if _call(q.pop, 'D') != ('ok', 'D') or _call(q.peek, 'D') != ('ok', 'D') or len(q) != 0:
                    fail('drain', '%s: drained queue not empty' % nm)
                    return None
        prs = [ref.live[t][0] for t in order]
        if len(prs) != len(set(prs)):
            tie_pop[0] = True
        return {'nlists': nlists, 'tie': tie_pop[0], 'readd_pop': popped_after_readd[0] or (readd[0] and bool(order)),
                'scaled': sf.had}


def _sh(ref):
    items = sorted(ref.live.items(), key=lambda kv: kv[1])
    if len(items) > 12:
        return repr(items[:12]) + '... (%d entries)' % len(items)
    return repr(items)


def run_pq(case):
    out = Outcome()
    info = _run_history(case, out, max(1, case['factor']))
    if info is None:
        return out
    out.nontrivial = info['tie'] or info['readd_pop']
    if info['tie']:
        out.label('ties_popped')
    if info['readd_pop']:
        out.label('readd_or_remove_then_pop')
    if info['nlists'] >= 2:
        out.label('sorted_backend_split')
    if not info['scaled']:
        out.label('size_factor_attribute_missing')
    return out


def run_scale(case):
    out = Outcome()
    info = _run_history(case, out, None, first=case['first'], drain_limit=case['drain'] or None)
    if info is None:
        return out
    out.nontrivial = info['nlists'] >= 2
    if info['nlists'] >= 2:
        out.label('sorted_backend_split_at_real_scale')
    return out


# ---------------------------------------------------------------------------
# BarrelList vs list

_bi = st.integers(0, 1000)


def strat_blist(tier):
    op = st.one_of(
        st.tuples(st.just('insert'), _bi), st.tuples(st.just('insert'), _bi),
        st.tuples(st.just('insert_end')), st.tuples(st.just('insert_front')),
        # only what the queues do to their back end: insert (through bisect.insort) and pop(0).  append / extend / pop() /
        # pop(i) are list operations the queues never use and the statement does not cover; they were generated at first and
        # the thorough tier reported BarrelList.pop() raising IndexError on a non-empty list after pop(last_index) had emptied
        # the last sub-list - a defect of listutils, but not a violation of this property (see DESIGN.md 9.4)
        st.tuples(st.just('pop0')), st.tuples(st.just('pop0')),
        st.tuples(st.just('insort'), st.integers(0, 30)),
        st.tuples(st.just('insort'), st.integers(0, 30)),
    ).map(list)
    return st.fixed_dictionaries({
        'sub': st.just('blist'),
        'factor': st.sampled_from([1, 2, 2, 3]),
        'init': st.integers(0, 30),
        'ops': st.lists(op, max_size=40 if tier == 'quick' else 80),
    })


def run_blist(case):
    import bisect
    out = Outcome()
    with scaled_factor(max(1, case['factor'])) as sf:
        n0 = case['init']
        m = list(range(0, 2 * n0, 2))
        r = _call(BarrelList, list(m))
        if r[0] != 'ok':
            return out.fail('c10.blist.ctor', repr(r))
        b = r[1]
        nxt = [1000]
        split = False

        def check(where):
            r = _call(lambda: list(b))
            if r != ('ok', m):
                out.fail('c10.blist.contents', '%s: list(b) = %r, reference %r; sub-lists %r' % (where, r, m, getattr(b, 'lists', None)))
                return False
            if _call(len, b) != ('ok', len(m)):
                out.fail('c10.blist.len', '%s: len = %r, reference %d' % (where, _call(len, b), len(m)))
                return False
            for i in range(-len(m), len(m)):
                r = _call(lambda: b[i])
                if r != ('ok', m[i]):
                    out.fail('c10.blist.getitem', '%s: b[%d] = %r, reference %r; sub-lists %r' % (where, i, r, m[i], getattr(b, 'lists', None)))
                    return False
            r = _call(lambda: b[len(m)])
            if r[0] != 'exc' or r[1] != 'IndexError':
                out.fail('c10.blist.getitem-end', '%s: b[len] = %r, reference IndexError; sub-lists %r' % (where, r, getattr(b, 'lists', None)))
                return False
            if m:
                x = m[len(m) // 2]
                if _call(b.index, x) != ('ok', m.index(x)) or _call(lambda: x in b) != ('ok', True):
                    out.fail('c10.blist.index', '%s: index/contains of %r wrong' % (where, x))
                    return False
            return True

        if not check('after construction'):
            return out
        for step, op in enumerate(case['ops']):
            name = op[0]
            where = 'step %d %r' % (step, op)
            exp = ('ok', None)
            if name in ('insert', 'insert_end', 'insert_front'):
                i = {'insert': lambda: op[1] % (len(m) + 1), 'insert_end': lambda: len(m), 'insert_front': lambda: 0}[name]()
                nxt[0] += 1
                got = _call(b.insert, i, nxt[0])
                m.insert(i, nxt[0])
                where += ' at %d' % i
            elif name == 'append':
                nxt[0] += 1
                got = _call(b.append, nxt[0])
                m.append(nxt[0])
            elif name == 'extend':
                xs = list(range(nxt[0] + 1, nxt[0] + 1 + op[1]))
                nxt[0] += op[1]
                got = _call(b.extend, xs)
                m.extend(xs)
            elif name == 'pop':
                if not m:
                    continue
                if op[1] is None:
                    got = _call(b.pop)
                    exp = ('ok', m.pop())
                else:
                    i = op[1] % (2 * len(m)) - len(m)
                    got = _call(b.pop, i)
                    exp = ('ok', m.pop(i))
                    where += ' at %d' % i
            elif name == 'pop0':
                if not m:
                    continue
                got = _call(b.pop, 0)
                exp = ('ok', m.pop(0))
            elif name == 'insort':
                # keep both sorted first (what SortedPriorityQueue relies on)
                m.sort()
                r = _call(BarrelList, list(m))
                if r[0] != 'ok':
                    return out.fail('c10.blist.ctor', repr(r))
                b2 = r[1]
                # rebuild with the same splitting behaviour: insert one by one
                b = BarrelList()
                for x in m:
                    b.insert(len(b), x)
                if list(b) != m:
                    return out.fail('c10.blist.insert-at-end', '%s: building by insert(len, x) gave %r, reference %r; sub-lists %r' % (
                        where, list(b), m, b.lists))
                x = op[1] * 70
                got = _call(bisect.insort, b, x)
                bisect.insort(m, x)
            else:
                raise HarnessError('op %r' % (op,))
            if got[:2] != exp[:2]:
                return out.fail('c10.blist.return.' + name, '%s returned %r, reference %r' % (where, got, exp))
            if not check('after ' + where):
                return out
            if len(getattr(b, 'lists', [0])) >= 2:
                split = True
    out.nontrivial = split
    if split:
        out.label('split_into_sublists')
    return out


SUBS = {
    'pq': Sub('pq', strat_pq, run_pq, quick=12000, thorough=240000, quick_shards=6),
    'blist': Sub('blist', strat_blist, run_blist, quick=6000, thorough=120000, quick_shards=4),
    'scale': Sub('scale', strat_scale, run_scale, quick=6, thorough=320, quick_shards=6),
}
