"""C14 - strutils encoders are exactly invertible: shell quoting, integer ranges, gzip."""
import gzip
import os
import shlex
import shutil
import subprocess
import tempfile

from hypothesis import strategies as st

from vlib.core import poison, Outcome, Sub, HarnessError, b2j, j2b

from boltons import strutils

LEVEL = 'exploration'
RULE = ('sh: lists of 0-6 strings over an alphabet biased to quotes, backslashes, whitespace, newlines, glob/expansion characters, '
        '"=", leading "-", "~", "#", non-ASCII and empty strings; the text from args2sh is executed by real POSIX shells (dash as '
        '/bin/sh and bash, in a directory holding files that globs would match, with $A set and HOME redirected) as '
        '`set -- <text>; printf "%s\\0" "$#" "$@"` and must give back exactly the arguments; shlex.split as second oracle. '
        'cmd: the same lists (plus backslash runs before quotes and at the end) parsed by an independent implementation of the '
        'Microsoft C runtime argv rules. int lists: round trip, canonical form (maximal runs), int_ranges_from_int_list, '
        'complement_int_list over windows around and beyond the data, all delimiter options. gzip: round trips with levels 1-9 and '
        'cross-checks with the gzip module. non-trivial: an argument that needs quoting; a list with a run >= 3 and a duplicate; '
        'a payload > 1 KiB or empty. distinct = distinct canonical JSON of the case.')
ASSUMPTIONS = [
    'no NUL and no lone surrogates in shell arguments (cannot be passed to a process)',
    'the Microsoft rules are the documented post-2008 CRT rules (space/tab delimiters, 2n/2n+1 backslashes before a quote, "" inside quotes)',
    'complement_int_list windows end at <= 5000 (the implementation materialises range(end))',
    'dash and bash present as /bin/sh and bash; if a shell is missing that oracle is skipped and the evidence says so',
]

SH = '/bin/sh'
BASH = shutil.which('bash')


def _call(f, *a, **kw):
    try:
        return ('ok', f(*a, **kw))
    except Exception as e:      # noqa
        return ('exc', type(e).__name__, str(e)[:200])


_piece = st.one_of(
    st.sampled_from(["'", '"', '\\', ' ', '\t', '\n', '$', '`', '*', '?', '[', ']', '{', '}', '~', '!', '#', '&', '|', ';', '<', '>',
                     '(', ')', '=', '-', '%', '@', '+', ':', ',', '.', '/', '^']),
    st.sampled_from(['a', 'b', 'ab', 'A', '0', '_', 'x1']),
    st.sampled_from(['$A', '${A}', '$(echo x)', '`echo x`', '[ab]', '{a,b}', '~', '~/x', '#c', '-n', '--', '-e', 'a b', "a'b", 'a"b',
                     '\\"', '\\\\', '\\\\"', '"\\', "'\\''", '$$', '*.*', '\\n', '\r', '\xe9', '\u20ac', '\U0001f600', '\x1b[0m', '\x7f',
                     '\x01', '&&', '||', '>x', '2>&1', '!!', 'a=b', '%PATH%', '^"']),
)
_arg = st.lists(_piece, min_size=0, max_size=5).map(''.join)


def strat_sh(tier):
    return st.fixed_dictionaries({
        'sub': st.just('sh'),
        'args': st.lists(_arg, min_size=0, max_size=6),
        'style': st.booleans(),
        # process history: how many DISTINCT arguments were quoted (in both styles) earlier in the process, and whether the same
        # arguments were rendered in the other style straight before
        'history': st.sampled_from([0] * 400 + [17000, 17000, 33000]),
        'other_first': st.booleans(),
    })


_WORKDIR = {}


def _workdir():
    """a directory with files that unquoted globs would match; created once per process"""
    pid = os.getpid()
    if pid not in _WORKDIR:
        d = tempfile.mkdtemp(prefix='c14sh')
        for name in ('a', 'b', 'ab', 'x1', 'c'):
            open(os.path.join(d, name), 'w').close()
        os.mkdir(os.path.join(d, 'home'))
        import atexit
        atexit.register(shutil.rmtree, d, True)
        _WORKDIR.clear()
        _WORKDIR[pid] = d
    return _WORKDIR[pid]


def _shell_split(shell, text, workdir):
    script = os.path.join(workdir, 'home', 'case.sh')
    with open(script, 'w', encoding='utf-8', newline='') as f:
        if shell == BASH:
            f.write('shopt -s failglob\n')     # an unquoted glob character fails even when nothing matches
        f.write('set -- ' + text + '\nprintf \'%s\\0\' "$#" "$@"\n')
    env = {'A': 'EXPANDED', 'HOME': os.path.join(workdir, 'home'), 'PATH': '/usr/bin:/bin', 'LC_ALL': 'C.UTF-8'}
    p = subprocess.run([shell, script], cwd=workdir, env=env, stdout=subprocess.PIPE, stderr=subprocess.PIPE, timeout=20)
    if p.returncode != 0:
        return ('shell-error', p.returncode, p.stderr.decode('utf-8', 'replace')[:200])
    parts = p.stdout.split(b'\0')
    if parts and parts[-1] == b'':
        parts.pop()
    try:
        n = int(parts[0])
    except Exception:
        return ('shell-error', 'bad output', repr(p.stdout[:200]))
    argv = [x.decode('utf-8', 'surrogateescape') for x in parts[1:]]
    if n != len(argv):
        return ('shell-error', 'count %d but %d fields' % (n, len(argv)), '')
    return ('ok', argv)


_HIST = [0]


def _history(case, out, other):
    n = case.get('history') or 0
    if n:
        _HIST[0] += 1
        for i in range(0, n, 500):
            batch = ['earlier arg %d-%d-%d' % (os.getpid(), _HIST[0], j) for j in range(i, min(n, i + 500))]
            strutils.args2sh(batch)
            strutils.args2cmd(batch)
        out.label('after_%d_distinct_arguments' % n)
    if case.get('other_first'):
        _call(other, list(case['args']))
        out.label('other_style_first')


def run_sh(case):
    out = Outcome()
    args = list(case['args'])
    for a in args:
        if '\0' in a:
            raise HarnessError('NUL in argument')
        a.encode('utf-8')
    _history(case, out, strutils.args2cmd)
    r = _call(strutils.args2sh, args)
    if r[0] != 'ok' or not isinstance(r[1], str):
        return out.fail('c14.sh.raises', 'args2sh(%r) -> %r' % (args, r))
    text = r[1]
    if case.get('style'):
        r2 = _call(strutils.escape_shell_args, args, style='sh')
        if r2 != ('ok', text):
            return out.fail('c14.sh.style-differs', "escape_shell_args(%r, style='sh') -> %r, args2sh -> %r" % (args, r2, text))
    needs = any((not a) or any(not (c.isalnum() and c.isascii()) and c not in '_@%+=:,./-' for c in a) for a in args)
    out.nontrivial = needs
    if needs:
        out.label('needs_quoting')
    if any('\n' in a for a in args):
        out.label('newline')
    if any("'" in a for a in args):
        out.label('single_quote')
    r = _call(shlex.split, text)
    if r != ('ok', args):
        return out.fail('c14.sh.shlex', 'args2sh(%r) = %r; shlex.split gives %r' % (args, text, r))
    wd = _workdir()
    for shell, name in ((SH, 'sh'), (BASH, 'bash')):
        if not shell or not os.path.exists(shell):
            out.label('no_' + name)
            continue
        res = _shell_split(shell, text, wd)
        if res != ('ok', args):
            return out.fail('c14.sh.shell', 'args2sh(%r) = %r; %s splits it into %r' % (args, text, name, res))
    return out


# ---------------------------------------------------------------------------
# cmd

def ms_split(s):
    """argv parsing per the documented Microsoft C runtime rules (arguments after the program name)."""
    args = []
    i, n = 0, len(s)
    while True:
        while i < n and s[i] in ' \t':
            i += 1
        if i >= n:
            break
        arg = []
        inq = False
        while i < n:
            c = s[i]
            if c == '\\':
                j = i
                while j < n and s[j] == '\\':
                    j += 1
                nb = j - i
                if j < n and s[j] == '"':
                    arg.append('\\' * (nb // 2))
                    if nb % 2:
                        arg.append('"')
                        i = j + 1
                    else:
                        i = j
                else:
                    arg.append('\\' * nb)
                    i = j
                continue
            if c == '"':
                if inq and i + 1 < n and s[i + 1] == '"':
                    arg.append('"')
                    i += 2
                    continue
                inq = not inq
                i += 1
                continue
            if c in ' \t' and not inq:
                break
            arg.append(c)
            i += 1
        args.append(''.join(arg))
    return args


_cpiece = st.one_of(
    _piece,
    st.sampled_from(['\\', '\\\\', '\\\\\\', '\\"', '\\\\"', '\\\\\\"', '"', '""', ' ', '\t', ' \\', '\\ ', 'a\\', 'C:\\dir\\', 'C:\\a b\\']),
)
_carg = st.lists(_cpiece, min_size=0, max_size=5).map(''.join)


def strat_cmd(tier):
    return st.fixed_dictionaries({
        'sub': st.just('cmd'),
        'args': st.lists(_carg, min_size=0, max_size=6),
        'style': st.booleans(),
        # process history: how many DISTINCT arguments were quoted (in both styles) earlier in the process, and whether the same
        # arguments were rendered in the other style straight before
        'history': st.sampled_from([0] * 400 + [17000, 17000, 33000]),
        'other_first': st.booleans(),
    })


def run_cmd(case):
    out = Outcome()
    args = list(case['args'])
    _history(case, out, strutils.args2sh)
    r = _call(strutils.args2cmd, args)
    if r[0] != 'ok' or not isinstance(r[1], str):
        return out.fail('c14.cmd.raises', 'args2cmd(%r) -> %r' % (args, r))
    text = r[1]
    if case.get('style'):
        r2 = _call(strutils.escape_shell_args, args, style='cmd')
        if r2 != ('ok', text):
            return out.fail('c14.cmd.style-differs', "escape_shell_args(%r, style='cmd') -> %r, args2cmd -> %r" % (args, r2, text))
    got = ms_split(text)
    if got != args:
        return out.fail('c14.cmd.split', 'args2cmd(%r) = %r; the MS C runtime rules split it into %r' % (args, text, got))
    out.nontrivial = any((not a) or ' ' in a or '\t' in a or '"' in a or a.endswith('\\') for a in args)
    if any(a.endswith('\\') and (' ' in a or '\t' in a) for a in args):
        out.label('trailing_backslash_in_quoted')
    if any('\\"' in a for a in args):
        out.label('backslash_before_quote')
    if text == subprocess.list2cmdline(args):
        out.label('same_as_list2cmdline')
    return out


# ---------------------------------------------------------------------------
# int lists

def ref_runs(ints):
    runs = []
    for x in sorted(set(ints)):
        if runs and runs[-1][1] == x - 1:
            runs[-1][1] = x
        else:
            runs.append([x, x])
    return [tuple(r) for r in runs]


def ref_format(ints, delim=',', range_delim='-', delim_space=False):
    parts = ['%d' % a if a == b else '%d%s%d' % (a, range_delim, b) for a, b in ref_runs(ints)]
    return (delim + ' ' if delim_space else delim).join(parts)


def strat_int(tier):
    @st.composite
    def case(draw):
        base = draw(st.lists(st.one_of(st.integers(0, 40), st.integers(0, 12), st.integers(0, 3000)), max_size=25))
        runs = draw(st.lists(st.tuples(st.integers(0, 200), st.integers(1, 8)), max_size=3))
        ints = list(base)
        for a, n in runs:
            ints.extend(range(a, a + n))
        order = draw(st.sampled_from(['asis', 'sorted', 'reversed']))
        return {
            'sub': 'int', 'ints': ints, 'order': order,
            'delim': draw(st.sampled_from([',', ',', ';', '|', ' ', '/'])),
            'range_delim': draw(st.sampled_from(['-', '-', ':', '..', '~'])),
            'delim_space': draw(st.booleans()),
            'start': draw(st.one_of(st.none(), st.integers(-5, 60), st.integers(0, 3100))),
            'end': draw(st.one_of(st.none(), st.integers(-5, 60), st.integers(0, 3200))),
            'as_set': draw(st.booleans()),
            # process history: an earlier call with invalid input that raised (and was caught) must not influence this one
            'prior_bad': draw(st.sampled_from([None, None, None, 'str_members', 'float_member', 'none_member', 'bad_text'])),
        }
    return case()


def run_int(case):
    out = Outcome()
    ints = [abs(int(x)) for x in case['ints']]
    if case['order'] == 'sorted':
        ints.sort()
    elif case['order'] == 'reversed':
        ints.sort(reverse=True)
    delim, rd, ds = case['delim'], case['range_delim'], bool(case['delim_space'])
    arg = set(ints) if case.get('as_set') else list(ints)
    exp_sorted = sorted(set(ints))
    prior = case.get('prior_bad')
    if prior:
        bad = {'str_members': ['3', '4', '7'], 'float_member': [3, 4.0], 'none_member': [1, 2, None, 9]}.get(prior)
        if bad is not None:
            _call(strutils.format_int_list, bad)
        else:
            _call(strutils.parse_int_list, '1-2-x,5,,oops')
        out.label('after_failed_call')
    for d, r_, s_ in ((',', '-', False), (delim, rd, ds)):
        kw = {} if (d, r_, s_) == (',', '-', False) else {'delim': d, 'range_delim': r_, 'delim_space': s_}
        pk = {} if not kw else {'delim': d, 'range_delim': r_}
        f = _call(strutils.format_int_list, arg, **kw)
        if f[0] != 'ok' or not isinstance(f[1], str):
            return out.fail('c14.int.format-raises', 'format_int_list(%r, %r) -> %r' % (ints, kw, f))
        text = f[1]
        want = ref_format(ints, d, r_, s_)
        if text != want:
            return out.fail('c14.int.not-canonical', 'format_int_list(%r, %r) = %r, canonical (maximal runs) %r' % (ints, kw, text, want))
        p = _call(strutils.parse_int_list, text, **pk)
        if p != ('ok', exp_sorted):
            return out.fail('c14.int.round-trip', 'parse_int_list(%r, %r) -> %r, expected %r' % (text, pk, p, exp_sorted))
        poison(p[1])        # the list belongs to the caller; parsing the same text again must not be affected
        p2 = _call(strutils.parse_int_list, text, **pk)
        if p2 != ('ok', exp_sorted):
            return out.fail('c14.int.round-trip.result-aliased', 'parse_int_list(%r, %r) a second time, after the caller changed the first result -> %r, expected %r' % (
                text, pk, p2, exp_sorted))
        rr = _call(strutils.int_ranges_from_int_list, text, **pk)
        if rr != ('ok', tuple(ref_runs(ints))):
            return out.fail('c14.int.ranges', 'int_ranges_from_int_list(%r, %r) -> %r, expected %r' % (text, pk, rr, tuple(ref_runs(ints))))
        start, end = case['start'], case['end']
        ckw = dict(pk)
        if start is not None:
            ckw['range_start'] = start
        if end is not None:
            ckw['range_end'] = min(end, 5000)
        c = _call(strutils.complement_int_list, text, **ckw)
        s0 = 0 if start is None else start
        if end is None:
            e0 = (max(ints) + 1) if ints else s0
        else:
            e0 = min(end, 5000)
        missing = [i for i in range(max(s0, 0), max(e0, 0)) if i not in set(ints)]
        if c[0] != 'ok':
            return out.fail('c14.int.complement-raises', 'complement_int_list(%r, %r) -> %r' % (text, ckw, c))
        if c[1] != ref_format(missing, d, r_, False):
            return out.fail('c14.int.complement', 'complement_int_list(%r, %r) = %r, expected %r' % (text, ckw, c[1], ref_format(missing, d, r_, False)))
        back = _call(strutils.parse_int_list, c[1], **pk)
        if back != ('ok', missing):
            return out.fail('c14.int.complement', 'complement %r parses to %r, expected %r' % (c[1], back, missing))
    runs = ref_runs(ints)
    out.nontrivial = any(b - a >= 2 for a, b in runs) and len(ints) != len(set(ints))
    if any(b - a >= 2 for a, b in runs):
        out.label('run>=3')
    if len(ints) != len(set(ints)):
        out.label('duplicates')
    if any(b - a == 1 for a, b in runs):
        out.label('run_of_2')
    return out


# ---------------------------------------------------------------------------
# gzip

def strat_gzip(tier):
    big = 40 if tier == 'quick' else 400
    return st.fixed_dictionaries({
        'sub': st.just('gzip'),
        'data': st.binary(max_size=600).map(b2j),
        'repeat': st.sampled_from([0, 1, 1, 1, 2, 7, big]),
        'tail': st.binary(max_size=40).map(b2j),
        'level': st.integers(1, 9),
        # exact sizes around typical buffer boundaries
        'size': st.sampled_from([None] * 6 + [1, 4095, 4096, 4097, 8192, 16384, 32767, 32768, 32769, 65535, 65536, 65537]),
    })


MiB = 1 << 20
BIG_SIZES = [MiB, 4 * MiB - 1, 4 * MiB, 4 * MiB + 1, 6 * MiB + 500000, 8 * MiB - 1, 8 * MiB, 8 * MiB + 1, 12 * MiB, 16 * MiB + 3]


def strat_gzipbig(tier):
    # scale class: megabyte payloads (exact multiples of 4 MiB and their neighbours), from incompressible to all-zero
    return st.fixed_dictionaries({
        'sub': st.just('gzipbig'),
        'big': st.sampled_from(BIG_SIZES if tier != 'quick' else BIG_SIZES[:9]),
        'content': st.sampled_from(['zeros', 'zeros', 'pattern', 'random', 'mixed']),
        'content_seed': st.integers(0, 1000),
        'level': st.sampled_from([1, 4, 6, 6, 9]),
    })


def _big_data(case):
    import random
    n = case['big']
    kind = case['content']
    if kind == 'zeros':
        return bytes(n)
    if kind == 'pattern':
        unit = bytes(range(256)) * 3 + b'boundary'
        return (unit * (n // len(unit) + 1))[:n]
    rnd = random.Random(case['content_seed'])     # deterministic function of the case
    if kind == 'random':
        return rnd.randbytes(n)
    half = n // 2
    return rnd.randbytes(half) + bytes(n - half)


def run_gzip(case):
    out = Outcome()
    if case.get('big'):
        data = _big_data(case)
        out.label('big:%s:%.1fMiB' % (case['content'], len(data) / MiB))
        if len(data) % (4 * MiB) == 0:
            out.label('big:multiple_of_4MiB')
    else:
        data = j2b(case['data']) * max(0, case['repeat']) + j2b(case['tail'])
        size = case.get('size')
        if size:
            data = (data or b'\x00') * (size // max(1, len(data)) + 1)
            data = data[:size]
    level = min(9, max(1, case['level']))
    z = _call(strutils.gzip_bytes, data, level)
    if z[0] != 'ok' or not isinstance(z[1], bytes):
        return out.fail('c14.gzip.raises', 'gzip_bytes(<%d bytes>, %d) -> %r' % (len(data), level, z))
    u = _call(strutils.gunzip_bytes, z[1])
    if u != ('ok', data):
        return out.fail('c14.gzip.round-trip', 'gunzip_bytes(gzip_bytes(<%d bytes> %r..., level=%d)) -> %r' % (
            len(data), data[:40], level, (u[0], '<%d bytes> %r' % (len(u[1]), u[1][:60]) if u[0] == 'ok' else u[1:])))
    if _call(gzip.decompress, z[1]) != ('ok', data):
        return out.fail('c14.gzip.not-gzip', 'gzip.decompress(gzip_bytes(%r...)) differs' % (data[:40],))
    if _call(strutils.gunzip_bytes, gzip.compress(data, level)) != ('ok', data):
        return out.fail('c14.gzip.gunzip', 'gunzip_bytes(gzip.compress(%r...)) differs' % (data[:40],))
    if case.get('big'):
        out.nontrivial = True
        return out
    d = _call(strutils.gzip_bytes, data)
    if d[0] != 'ok' or _call(strutils.gunzip_bytes, d[1]) != ('ok', data):
        return out.fail('c14.gzip.round-trip', 'default level round trip fails for %r...' % (data[:40],))
    out.nontrivial = len(data) > 1024 or len(data) == 0
    if not data:
        out.label('empty')
    if len(data) > 1024:
        out.label('>1KiB')
    return out


SUBS = {
    'sh': Sub('sh', strat_sh, run_sh, quick=3000, thorough=64000, quick_shards=6),
    'cmd': Sub('cmd', strat_cmd, run_cmd, quick=20000, thorough=400000, quick_shards=3),
    'int': Sub('int', strat_int, run_int, quick=8000, thorough=200000, quick_shards=3),
    'gzip': Sub('gzip', strat_gzip, run_gzip, quick=1500, thorough=32000, quick_shards=2),
    'gzipbig': Sub('gzipbig', strat_gzipbig, run_gzip, quick=64, thorough=1600, quick_shards=16),
}
