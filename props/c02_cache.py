"""C02 - LRI/LRU: capacity, recency eviction, counters, copy."""
import collections

from hypothesis import strategies as st

from vlib.core import Outcome, Sub, HarnessError, expand_ops, REPEATS

from boltons import cacheutils
from boltons.cacheutils import LRI, LRU

LEVEL = 'exploration'
RULE = ('class in {LRI, LRU} x max_size (1-6 quick, up to 40 thorough) x on_miss in {None, 3 functions} x optional initial '
        'values x history of <=30/40 dict-API operations over a key pool of max_size+3 keys, on up to 3 live caches '
        '(copies); reference = OrderedDict + three counters; contents, counters, on_miss calls and return values are '
        'compared after every step, the eviction order is probed black-box at the end (fresh inserts, watch which key '
        'disappears). non-trivial = at least one eviction and a lookup hit before a later eviction. '
        'distinct = distinct canonical JSON of the case.')
ASSUMPTIONS = [
    'iteration order and which item popitem() pops are not compared (statement silent)',
    'counters of a fresh copy() are read from the copy and tracked from there (statement: unspecified)',
    'on_miss functions are total and never raise',
]

ON_MISS = {
    'none': None,
    'tuple': lambda k: ('m', k),
    'nonev': lambda k: None,
    'ident': lambda k: k,
    # re-entrant loaders: they store into the very cache that is looking the key up, before returning
    'prefetch_self': lambda k: ('m', k),
    'prefetch_other': lambda k: ('m', k),
    # loaders that fail for every other key: with KeyError (what a backing dict raises; get/setdefault then fall back to
    # the caller's default) or with another exception (propagates); the lookup was a miss either way
    'raise_key': lambda k: _raise_if_odd(k, KeyError),
    'raise_value': lambda k: _raise_if_odd(k, ValueError),
}


def _key_index(k):
    for i, kk in enumerate(KEYTAB):
        if type(kk) is type(k) and kk == k:
            return i
    return int(k[1:])


def _raise_if_odd(k, exc):
    if _key_index(k) % 2:
        raise exc(k)
    return ('m', k)


class Ref:
    def __init__(self, kind, max_size, on_miss):
        self.kind, self.max, self.on_miss = kind, max_size, on_miss
        self.od = collections.OrderedDict()
        self.hit = self.miss = self.soft = 0
        self.miss_calls = []
        self.evictions = 0
        self.hit_then_evict = False
        self._hit_seen = False
        self.reentrant = None

    def clone(self):
        r = Ref(self.kind, self.max, None)
        r.reentrant = None
        r.od = collections.OrderedDict(self.od)
        return r

    def set(self, k, v):
        if k in self.od:
            self.od.move_to_end(k)
        elif len(self.od) >= self.max:
            self.od.popitem(last=False)
            self.evictions += 1
            if self._hit_seen:
                self.hit_then_evict = True
        self.od[k] = v

    def getitem(self, k):
        if k in self.od:
            self.hit += 1
            self._hit_seen = True
            if self.kind == 'LRU':
                self.od.move_to_end(k)
            return self.od[k]
        self.miss += 1
        if self.on_miss is None:
            raise KeyError(k)
        self.miss_calls.append(k)
        if self.reentrant == 'prefetch_self':
            self.set(k, ('pre', k))
        elif self.reentrant == 'prefetch_other':
            self.set(K(1), ('pre', k))
        v = self.on_miss(k)
        self.set(k, v)
        return v

    def get(self, k, d=None):
        try:
            return self.getitem(k)
        except KeyError:
            self.soft += 1
            return d

    def setdefault(self, k, d=None):
        try:
            return self.getitem(k)
        except KeyError:
            self.soft += 1
            self.set(k, d)
            return d


def _expect(f, *a):
    try:
        return ('ok', f(*a))
    except (KeyError, ValueError) as e:
        return ('exc', type(e).__name__)


def _call(f, *a, **kw):
    try:
        return ('ok', f(*a, **kw))
    except Exception as e:      # noqa
        return ('exc', type(e).__name__, str(e)[:200])


# ---------------------------------------------------------------------------

def strat(tier):
    @st.composite
    def case(draw):
        if tier == 'quick':
            # mostly tiny caches; sometimes one beyond CPython's small-int cache (257+) and the default size (128)
            max_size = draw(st.integers(1, 6))
            if draw(st.integers(0, 11)) == 0:
                max_size = draw(st.sampled_from([128, 257, 300]))
            nops = 30 if max_size <= 6 else 15
        else:
            max_size = draw(st.one_of(st.integers(1, 6), st.integers(7, 40)))
            nops = 40 if max_size <= 6 else 80
        nk = max_size + 3
        ki = st.integers(0, nk - 1)
        vi = st.integers(0, 5)
        u = st.integers(0, 2)
        pairs = st.lists(st.tuples(ki, vi).map(list), max_size=max_size + 2)
        op = st.one_of(
            st.tuples(st.just('set'), u, ki, vi), st.tuples(st.just('set'), u, ki, vi),
            st.tuples(st.just('set'), u, ki, vi), st.tuples(st.just('set'), u, ki, vi),
            st.tuples(st.just('set'), u, ki, vi), st.tuples(st.just('set'), u, ki, vi),
            st.tuples(st.just('getitem'), u, ki), st.tuples(st.just('getitem'), u, ki),
            st.tuples(st.just('getitem'), u, ki), st.tuples(st.just('getitem'), u, ki),
            st.tuples(st.just('del'), u, ki),
            st.tuples(st.just('get'), u, ki, st.one_of(st.none(), vi, st.just('same'), st.just('None'))),
            st.tuples(st.just('setdefault'), u, ki, st.one_of(st.none(), vi, st.just('None'))),
            st.tuples(st.just('update'), u, st.sampled_from(['dict', 'pairs', 'iter', 'kwargs', 'pairs+kw', 'self']), pairs),
            st.tuples(st.just('ior'), u, st.sampled_from(['dict', 'pairs']), pairs),
            st.tuples(st.just('pop'), u, ki, st.one_of(st.none(), vi, st.just('same'), st.just('same'), st.just('None'))),
            st.tuples(st.just('popitem'), u),
            st.tuples(st.just('clear'), u),
            st.tuples(st.just('copy'), u),
            st.tuples(st.just('contains'), u, ki),
            st.tuples(st.just('eq_live'), u, u), st.tuples(st.just('eq_live'), u, u),
            st.tuples(st.just('update_live'), u, u, st.sampled_from(['update', 'ior'])),
            st.tuples(st.just('update_live'), u, u, st.sampled_from(['update', 'ior'])),
            st.tuples(st.just('iterate'), u),
            st.tuples(st.just('fill'), u, ki),
        ).map(list)
        return {
            'sub': 'cache',
            'cls': draw(st.sampled_from(['LRI', 'LRU', 'LRU'])),
            'max_size': max_size,
            'on_miss': draw(st.sampled_from(['none', 'none', 'tuple', 'nonev', 'ident', 'prefetch_self', 'prefetch_other', 'raise_key', 'raise_value'])),
            'init': draw(st.one_of(st.none(), st.tuples(st.sampled_from(['dict', 'pairs']), pairs).map(list))),
            'ops': draw(st.lists(op, min_size=draw(st.sampled_from([0, 0, 8, 15])), max_size=nops)),
            'repeat': draw(st.sampled_from(REPEATS)),
        }
    return case()


KEYTAB = ['k0', -1, 'k2', -2, '', 'k5', None, 0, 'k8', (1, 2)]     # hash-colliding (-1, -2), falsy and non-string keys


def K(i):
    return KEYTAB[i] if 0 <= i < len(KEYTAB) else 'k%d' % i


def KW(i):
    k = K(i)
    return k if isinstance(k, str) and k.isidentifier() else 'kw%d' % i


def DEFAULT(spec, ref, k):
    """caller default for get/pop/setdefault: 'same' = the very object currently stored under the key (or None),
    'None' = None, an int = that small int (identical to stored ints), which exposes 'is default' shortcuts"""
    if spec == 'same':
        return ref.od.get(k)
    if spec == 'None':
        return None
    return spec


def _mk(form, pairs):
    prs = [(K(a), b) for a, b in pairs]
    d = {}
    for k, v in prs:
        d[k] = v
    if form == 'dict':
        return (d,), {}, list(d.items())
    if form == 'pairs':
        return (list(prs),), {}, prs
    if form == 'iter':
        return (iter(list(prs)),), {}, prs
    if form == 'kwargs':
        kw = {}
        for a, b in pairs:
            kw[KW(a)] = b
        return ({},), kw, list(kw.items())
    if form == 'pairs+kw':
        half = len(prs) // 2
        kw = {}
        for a, b in pairs[half:]:
            kw[KW(a)] = b
        return (list(prs[:half]),), kw, prs[:half] + list(kw.items())
    raise HarnessError('form %r' % (form,))


def _check(c, ref, out, where, nkeys, calls):
    """compare cache `c` with reference after a step"""
    def bad(kind, msg):
        out.fail('c02.' + kind, '%s: %s; reference contents (oldest first) %r' % (where, msg, list(ref.od.items())))
        return False
    n = _call(len, c)
    if n[0] != 'ok' or n[1] > ref.max:
        return bad('capacity', 'len = %r exceeds max_size %d' % (n, ref.max))
    d = _call(lambda: dict(c))
    if d != ('ok', dict(ref.od)):
        return bad('contents', 'dict(cache) = %r' % (d,))
    if n[1] != len(ref.od):
        return bad('len', 'len = %r' % (n,))
    ks = _call(lambda: sorted(c, key=repr))
    if ks != ('ok', sorted(ref.od, key=repr)):
        return bad('iter', 'sorted(iter(cache)) = %r' % (ks,))
    for i in range(nkeys):
        k = K(i)
        r = _call(lambda: k in c)
        if r != ('ok', k in ref.od):
            return bad('contains', '%r in cache = %r' % (k, r))
    cnt = (_call(lambda: c.hit_count), _call(lambda: c.miss_count), _call(lambda: c.soft_miss_count))
    exp = (('ok', ref.hit), ('ok', ref.miss), ('ok', ref.soft))
    if cnt != exp:
        return bad('counters', '(hit, miss, soft_miss) = %r, reference %r' % (tuple(x[1] for x in cnt), (ref.hit, ref.miss, ref.soft)))
    if not (ref.soft <= ref.miss):
        raise HarnessError('reference counters inconsistent')
    if calls != ref.miss_calls:
        return bad('on_miss-calls', 'on_miss was called for %r, reference %r' % (calls, ref.miss_calls))
    same = dict(ref.od)
    r = _call(lambda: c == same)
    if r != ('ok', True):
        return bad('eq', 'cache == dict(same contents) -> %r' % (r,))
    r = _call(lambda: c != same)
    if r != ('ok', False):
        return bad('eq', 'cache != dict(same contents) -> %r' % (r,))
    diff = dict(same)
    if diff:
        k0 = sorted(diff, key=repr)[0]
        diff[k0] = ('other', diff[k0])
    else:
        diff['zz'] = 1
    r = _call(lambda: c == diff)
    if r != ('ok', False):
        return bad('eq', 'cache == dict(one value changed) -> %r' % (r,))
    other = LRI(max_size=max(1, len(same)) + 1, values=list(same.items()))
    r = _call(lambda: c == other)
    if r != ('ok', True):
        return bad('eq', 'cache == LRI(same contents) -> %r' % (r,))
    return True


def _probe(c, ref, out, where):
    """black-box eviction order: insert fresh keys, watch which original key vanishes"""
    originals = list(ref.od)         # oldest first
    present = set(originals)
    victims = []
    for i in range(ref.max + len(originals) + 1):
        r = _call(c.__setitem__, 'fresh%d' % i, i)
        if r[0] != 'ok':
            out.fail('c02.probe-raises', '%s: inserting a fresh key raised %r' % (where, r))
            return False
        if len(c) > ref.max:
            out.fail('c02.capacity', '%s: len %d exceeds max_size %d while probing' % (where, len(c), ref.max))
            return False
        gone = [k for k in originals if k in present and k not in c]
        for k in gone:
            present.discard(k)
            victims.append(k)
        if not present:
            break
    if victims != originals:
        out.fail('c02.eviction-order', '%s: keys were evicted in the order %r, reference recency order (oldest first) %r' % (
            where, victims, originals))
        return False
    return True


def run(case):
    out = Outcome()
    cls = {'LRI': LRI, 'LRU': LRU}[case['cls']]
    max_size = case['max_size']
    if max_size < 1:
        raise HarnessError('max_size')
    nkeys = max_size + 3
    base_miss = ON_MISS[case['on_miss']]
    calls_by_u = []

    def mk_on_miss(calls):
        if base_miss is None:
            return None

        def on_miss(k):
            calls.append(k)
            tgt = holder['target']
            if case['on_miss'] == 'prefetch_self':
                tgt[k] = ('pre', k)
            elif case['on_miss'] == 'prefetch_other':
                tgt[K(1)] = ('pre', k)
            return base_miss(k)
        return on_miss

    holder = {'target': None}

    calls0 = []
    om = mk_on_miss(calls0)
    ref = Ref(case['cls'], max_size, base_miss)
    if case['on_miss'].startswith('prefetch'):
        ref.reentrant = case['on_miss']
    init = case.get('init')
    try:
        if init is None:
            c = cls(max_size=max_size, on_miss=om)
        else:
            a, kw, eff = _mk(init[0], [(k % nkeys, v) for k, v in init[1]])
            c = cls(max_size=max_size, values=a[0], on_miss=om)
            for k, v in eff:
                ref.set(k, v)
    except HarnessError:
        raise
    except Exception as e:
        return out.fail('c02.ctor-raises', 'constructor raised %r' % (e,))
    univ = [[c, ref, calls0]]
    if not _check(c, ref, out, 'after construction', nkeys, calls0):
        return out
    for step, (op, full_check) in enumerate(expand_ops(case, (2,))):
        name = op[0]
        u = univ[op[1] % len(univ)]
        c, ref, calls = u
        holder['target'] = c
        where = 'step %d %r on %s(max_size=%d, on_miss=%s)' % (step, op, case['cls'], max_size, case['on_miss'])
        exp = ('ok', None)
        if name == 'set':
            k, v = K(op[2] % nkeys), op[3]
            got = _call(c.__setitem__, k, v)
            ref.set(k, v)
        elif name == 'getitem':
            k = K(op[2] % nkeys)
            got = _call(c.__getitem__, k)
            exp = _expect(ref.getitem, k)
        elif name == 'del':
            k = K(op[2] % nkeys)
            got = _call(c.__delitem__, k)
            if k in ref.od:
                del ref.od[k]
            else:
                exp = ('exc', 'KeyError')
        elif name == 'get':
            k = K(op[2] % nkeys)
            if op[3] is None:
                got = _call(c.get, k)
                exp = _expect(ref.get, k)
            else:
                d = DEFAULT(op[3], ref, k)
                got = _call(c.get, k, d)
                exp = _expect(ref.get, k, d)
        elif name == 'setdefault':
            k = K(op[2] % nkeys)
            if op[3] is None:
                got = _call(c.setdefault, k)
                exp = _expect(ref.setdefault, k)
            else:
                d = DEFAULT(op[3], ref, k)
                got = _call(c.setdefault, k, d)
                exp = _expect(ref.setdefault, k, d)
        elif name == 'update':
            if op[2] == 'self':
                got = _call(c.update, c)
            else:
                a, kw, eff = _mk(op[2], [(k % nkeys, v) for k, v in op[3]])
                got = _call(c.update, *a, **kw)
                for k, v in eff:
                    ref.set(k, v)
        elif name == 'update_live':
            # update() / |= from ANOTHER live cache: the dict protocol applies (keys in the source's iteration order, each value
            # read with source[key], which is a counted lookup there and refreshes an LRU source)
            c2, ref2, _calls2 = univ[op[2] % len(univ)]
            if c2 is c:
                got = _call(c.update, c)
            else:
                order = list(c2)
                if op[3] == 'ior':
                    def _ior2(c=c, c2=c2):
                        cc = c
                        cc |= c2
                    got = _call(_ior2)
                else:
                    got = _call(c.update, c2)
                for k in order:
                    ref.set(k, ref2.getitem(k))
        elif name == 'ior':
            a, kw, eff = _mk(op[2], [(k % nkeys, v) for k, v in op[3]])

            def _ior(c=c, a=a):
                c2 = c
                c2 |= a[0]
                if c2 is not c:
                    raise AssertionError('|= returned another object')
            got = _call(_ior)
            for k, v in eff:
                ref.set(k, v)
        elif name == 'pop':
            k = K(op[2] % nkeys)
            if op[3] is None:
                got = _call(c.pop, k)
                exp = ('ok', ref.od.pop(k)) if k in ref.od else ('exc', 'KeyError')
            else:
                d = DEFAULT(op[3], ref, k)
                got = _call(c.pop, k, d)
                exp = ('ok', ref.od.pop(k)) if k in ref.od else ('ok', d)
        elif name == 'popitem':
            got = _call(c.popitem)
            if not ref.od:
                exp = ('exc', 'KeyError')
            elif got[0] == 'ok' and isinstance(got[1], tuple) and len(got[1]) == 2 and \
                    got[1][0] in ref.od and ref.od[got[1][0]] == got[1][1]:
                del ref.od[got[1][0]]
                exp = got
            else:
                return out.fail('c02.return.popitem', '%s -> %r, reference contents %r' % (where, got, dict(ref.od)))
        elif name == 'clear':
            got = _call(c.clear)
            ref.od.clear()
        elif name == 'fill':
            # assign every key of the pool once (more keys than max_size: forces max_size+ insertions and evictions)
            got = ('ok', None)
            for i in range(nkeys):
                kk = K((op[2] + i) % nkeys)
                r1 = _call(c.__setitem__, kk, i)
                ref.set(kk, i)
                if r1 != ('ok', None):
                    got = r1
                    break
        elif name == 'eq_live':
            # two LIVE caches compared with each other: the answer is about contents only, and neither operand may change
            # (contents, counters, on_miss calls are checked for every live cache after the step, recency at the end)
            c2, ref2, _calls2 = univ[op[2] % len(univ)]
            same = dict(ref.od) == dict(ref2.od)
            got = _call(lambda: (c == c2, c != c2, c2 == c))
            exp = ('ok', (same, not same, same))
        elif name == 'contains':
            k = K(op[2] % nkeys)
            got = _call(lambda: k in c)
            exp = ('ok', k in ref.od)
        elif name == 'iterate':
            got = _call(lambda: (sorted(c, key=repr), sorted(c.keys(), key=repr), sorted(c.values(), key=repr), len(c.items())))
            exp = ('ok', (sorted(ref.od, key=repr), sorted(ref.od, key=repr), sorted(ref.od.values(), key=repr), len(ref.od)))
        elif name == 'copy':
            r = _call(c.copy)
            if r[0] != 'ok' or type(r[1]) is not cls or r[1] is c:
                return out.fail('c02.copy.result', '%s -> %r' % (where, r))
            cp = r[1]
            if getattr(cp, 'max_size', None) != max_size:
                return out.fail('c02.copy.max_size', '%s: copy has max_size %r' % (where, getattr(cp, 'max_size', None)))
            cref = ref.clone()
            # the copy's own on_miss / counters are unspecified: read them off the copy
            cref.on_miss = None
            if cp.on_miss is not None:
                cref.on_miss = base_miss
                cref.reentrant = ref.reentrant
            cref.hit, cref.miss, cref.soft = cp.hit_count, cp.miss_count, cp.soft_miss_count
            if not (cref.soft <= cref.miss):
                return out.fail('c02.counters', '%s: copy starts with soft_miss_count %d > miss_count %d' % (where, cref.soft, cref.miss))
            if cp.on_miss is not None:
                # the copy shares our recording on_miss: one call list for both
                ccalls, cref.miss_calls = calls, ref.miss_calls
            else:
                ccalls, cref.miss_calls = [], []
            if len(univ) < 3:
                univ.append([cp, cref, ccalls])
            else:
                # not kept: check the copy and probe its eviction order right away
                if not _check(cp, cref, out, where + ' (copy)', nkeys, ccalls):
                    return out
                if not _probe(cp, cref, out, where + ' (copy)'):
                    return out
            got = ('ok', None)
        else:
            raise HarnessError('op %r' % (op,))
        if exp[0] == 'ok':
            if got[:2] != exp[:2]:
                return out.fail('c02.return.' + name, '%s returned %r, reference %r; reference contents %r' % (
                    where, got, exp, list(ref.od.items())))
        elif got[0] != 'exc' or got[1] != exp[1]:
            return out.fail('c02.return.' + name, '%s returned %r, reference raises %s' % (where, got, exp[1]))
        for j, (cc, rr, cl) in enumerate(univ if full_check else []):
            if not _check(cc, rr, out, 'after %s, cache #%d' % (where, j), nkeys, cl):
                if cc is not c and out.kind in ('c02.contents', 'c02.counters'):
                    out.kind += '.other-instance'
                return out
    evictions = sum(r.evictions for _, r, _ in univ)
    for j, (cc, rr, cl) in enumerate(univ):
        if not _probe(cc, rr, out, 'final probe of cache #%d (%s max_size=%d)' % (j, case['cls'], max_size)):
            if j > 0 or len(univ) > 1:
                out.kind += '.with-copy'
            return out
    out.nontrivial = evictions > 0 and any(r.hit_then_evict for _, r, _ in univ)
    if evictions:
        out.label('evicted')
    if out.nontrivial:
        out.label('hit_before_eviction')
    if len(univ) > 1:
        out.label('copies')
    if max_size > 6:
        out.label('max_size>6')
    if max_size >= 257:
        out.label('max_size>=257')
    if case.get('repeat', 1) > 1:
        out.label('long_history')
    return out


SUBS = {
    'cache': Sub('cache', strat, run, quick=12000, thorough=320000, quick_shards=16),
}
