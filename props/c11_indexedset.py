"""C11 - IndexedSet == insertion-ordered list of unique items + set algebra."""
from hypothesis import strategies as st

from vlib.core import Outcome, Sub, HarnessError, expand_ops, REPEATS

from boltons.setutils import IndexedSet

LEVEL = 'exploration'
RULE = ('initial content (range(n) or drawn list; n 0-12, or a large class n in {40,100,400,3500}) + history of <=40 list-style, '
        'set-style and in-place operations, macro-ops that create many separate dead intervals / a dead tail, and n-ary set '
        'algebra with set/frozenset/list/tuple/IndexedSet operands; reference = plain list of distinct items + Python set algebra; '
        'after every step iteration, len, membership, s[i] for every valid index (sampled above 64 items), drawn slices, '
        'index(), count(), reversed() are compared. non-trivial = a positional read (index/slice) after a non-tail deletion, '
        'or an n-ary (>=2 operands) set operation. distinct = distinct canonical JSON of the case.')
ASSUMPTIONS = [
    'only indices valid for a list of the same length; slices with positive (or absent) step',
    'result order of set operations: first appearance in self, then in the operands left to right (operand iteration order '
    'is read from the very same operand object)',
    'sets are never passed themselves as operand (statement silent on aliasing)',
]

U = 14       # universe of the small class: ints 0..U-1


def _call(f, *a, **kw):
    try:
        return ('ok', f(*a, **kw))
    except Exception as e:      # noqa
        return ('exc', type(e).__name__, str(e)[:200])


_x = st.integers(-2, U - 3)          # includes -1 and -2 (equal hashes) and 0
_operand = st.tuples(st.sampled_from(['set', 'frozenset', 'list', 'tuple', 'iset', 'list', 'tuple', 'iset', 'dupes_list', 'dupes_tuple']),
                     st.lists(_x, max_size=6)).map(list)
_idx = st.integers(-40, 40)
_bound = st.one_of(st.none(), st.integers(-16, 16), st.integers(-16, 16), st.integers(-16, 16),
                   # bounds beyond the machine word (a list clamps them)
                   st.sampled_from([2 ** 63 - 1, 2 ** 63, 2 ** 64, 10 ** 30, -2 ** 63 - 1, -10 ** 30]))


def _op():
    ops1 = st.lists(_operand, min_size=1, max_size=3)
    ops0 = st.lists(_operand, min_size=0, max_size=3)
    return st.one_of(
        st.tuples(st.just('add'), _x),
        st.tuples(st.just('add'), st.integers(1000, 1007)),
        st.tuples(st.just('update'), ops0),
        st.tuples(st.just('remove'), _x), st.tuples(st.just('remove'), _x),
        st.tuples(st.just('remove_at'), _idx), st.tuples(st.just('remove_at'), _idx),
        st.tuples(st.just('discard'), _x),
        st.tuples(st.just('pop'), st.one_of(st.none(), _idx)),
        st.tuples(st.just('pop'), _idx),
        st.tuples(st.just('clear')),
        st.tuples(st.just('sort'), st.booleans()),
        st.tuples(st.just('sort_key'), st.sampled_from(['mod3', 'mod2', 'const', 'neg']), st.booleans()),
        st.tuples(st.just('reverse')),
        st.tuples(st.just('inplace'), st.sampled_from(['|=', '&=', '-=', '^=']), _operand),
        st.tuples(st.just('intersection_update'), ops1),
        st.tuples(st.just('difference_update'), ops1),
        st.tuples(st.just('symmetric_difference_update'), _operand),
        st.tuples(st.just('remove_run'), _idx, st.integers(1, 9), st.one_of(st.integers(1, 60), st.integers(1, 60), st.integers(370, 450))),
        st.tuples(st.just('remove_tail'), st.integers(1, 12), st.sampled_from(['fwd', 'rev'])),
        st.tuples(st.just('remove_seq'), st.lists(st.integers(-4, -1), min_size=2, max_size=4)),
        st.tuples(st.just('remove_seq'), st.lists(st.integers(-4, 3), min_size=2, max_size=4)),
        st.tuples(st.just('remove_near'), st.lists(st.integers(-2, 2), min_size=1, max_size=3)),
        st.tuples(st.just('algebra'), st.sampled_from(['union', 'intersection', 'difference']), ops0),
        st.tuples(st.just('algebra'), st.sampled_from(['union', 'intersection', 'difference']), ops0),
        st.tuples(st.just('symdiff'), _operand),
        st.tuples(st.just('operator'), st.sampled_from(['|', '&', '-', '^', 'r|', 'r&', 'r-', 'r^']), _operand),
        st.tuples(st.just('predicate'), st.sampled_from(['issubset', 'issuperset', 'isdisjoint']), _operand),
        st.tuples(st.just('slice'), _bound, _bound, st.sampled_from([None, 1, 2, 3, 2 ** 63, 10 ** 20])),
        st.tuples(st.just('slice'), _bound, _bound, st.sampled_from([None, 1, 2, 3, 2 ** 63, 10 ** 20])),
        # a second live instance derived from the current one; 'switch' continues the history on another live instance
        st.tuples(st.just('clone'), st.sampled_from(['ctor', 'update_empty', 'ior_empty', 'from_iterable', 'slice_all', 'union_none'])),
        st.tuples(st.just('switch'), st.integers(0, 3)),
    ).map(list)


def strat(tier):
    big = [40, 100, 400, 3500]
    init = st.one_of(
        st.tuples(st.just('range'), st.integers(0, 12)),
        st.tuples(st.just('range'), st.integers(0, 12)),
        st.tuples(st.just('list'), st.lists(_x, max_size=12)),
        st.tuples(st.just('range'), st.sampled_from(big)),
    ).map(list)
    # scale class: a set of thousands of items with hundreds of *scattered* removals (every 2nd/3rd item), i.e. more dead
    # intervals than the 384-interval compaction threshold while staying under the 1/8 dead-ratio threshold
    scatter = st.tuples(st.just('remove_run'), st.integers(0, 30), st.sampled_from([2, 2, 3]), st.integers(380, 436)).map(list)
    normal = st.fixed_dictionaries({
        'sub': st.just('iset'),
        'init': init,
        'ops': st.lists(_op(), max_size=25 if tier == 'quick' else 40),
        'repeat': st.sampled_from(REPEATS),
    })
    scattered = st.fixed_dictionaries({
        'sub': st.just('iset'),
        'init': st.tuples(st.just('range'), st.sampled_from([3500, 3500, 5000])).map(list),
        'ops': st.tuples(st.lists(_op(), max_size=3), scatter, st.lists(_op(), max_size=8)).map(lambda t: t[0] + [t[1]] + t[2]),
        'repeat': st.just(1),
    })
    return st.integers(0, 15).flatmap(lambda i: scattered if i == 0 else normal)


_CURRENT = [[]]     # the reference list of the set under test (for operands derived from its current contents)


def _mk_operand(spec):
    kind, xs = spec
    if kind in ('dupes_list', 'dupes_tuple'):
        # as many elements as the set has, all of them members, but only every other member (each twice): same length, not equal
        m = _CURRENT[0]
        half = m[(xs[0] if xs else 0) % 2::2] or m[:1]
        out = (half * 2)[:len(m)] if m else []
        return list(out) if kind == 'dupes_list' else tuple(out)
    if kind == 'set':
        return set(xs)
    if kind == 'frozenset':
        return frozenset(xs)
    if kind == 'list':
        return list(xs)
    if kind == 'tuple':
        return tuple(xs)
    if kind == 'iset':
        return IndexedSet(xs)
    raise HarnessError('operand kind %r' % (kind,))


def _uniq(seq):
    seen, out = set(), []
    for x in seq:
        if x not in seen:
            seen.add(x)
            out.append(x)
    return out


class Ctx:
    pass


def _check_state(s, m, out, where, ctx):
    def bad(kind, msg):
        out.fail('c11.' + kind, '%s: %s; reference list (len %d) %s' % (where, msg, len(m), _sh(m)))
        return False
    r = _call(lambda: list(s))
    if r != ('ok', m):
        return bad('iter', 'list(s) = %s' % (_sh(r[1]) if r[0] == 'ok' else r,))
    if _call(len, s) != ('ok', len(m)):
        return bad('len', 'len(s) = %r' % (_call(len, s),))
    r = _call(lambda: list(reversed(s)))
    if r != ('ok', m[::-1]):
        return bad('reversed', 'reversed(s) = %r' % (r,))
    n = len(m)
    if n <= 64:
        idxs = range(-n, n)
    else:
        pts = {0, 1, n - 1, n - 2, -1, -n, n // 2}
        for p in ctx.hot:
            for d in (-2, -1, 0, 1, 2):
                if -n <= p + d < n:
                    pts.add(p + d)
        step = max(1, n // 23)
        pts.update(range(0, n, step))
        idxs = sorted(pts)
    positional = False
    for i in idxs:
        r = _call(lambda: s[i])
        if r != ('ok', m[i]):
            return bad('getitem', 's[%d] = %r, reference %r (dead intervals %r)' % (i, r, m[i], getattr(s, 'dead_indices', '?')))
        positional = True
    if n <= 64:
        items = m
    else:
        items = [m[i] for i in idxs]
    for x in items:
        r = _call(s.index, x)
        if r != ('ok', m.index(x)):
            return bad('index', 's.index(%r) = %r, reference %d (dead intervals %r)' % (x, r, m.index(x), getattr(s, 'dead_indices', '?')))
    ms = set(m)
    for x in list(range(-2, U - 2)) + list(range(1000, 1008)) + [-5, 'zz']:
        if _call(lambda: x in s) != ('ok', x in ms):
            return bad('contains', '%r in s = %r' % (x, _call(lambda: x in s)))
        if _call(s.count, x) != ('ok', 1 if x in ms else 0):
            return bad('count', 's.count(%r) = %r' % (x, _call(s.count, x)))
    r = _call(s.index, 'absent')
    if r[0] != 'exc' or r[1] != 'ValueError':
        return bad('index', 's.index(absent) = %r, reference ValueError' % (r,))
    if positional and ctx.nontail_deletion:
        ctx.nontrivial = True
    return True


def _sh(l):
    if not isinstance(l, list) or len(l) <= 40:
        return repr(l)
    return '[%s, ... %s]' % (', '.join(map(repr, l[:12])), ', '.join(map(repr, l[-12:])))


def run(case):
    out = Outcome()
    kind, arg = case['init']
    if kind == 'range':
        m = list(range(arg))
        r = _call(IndexedSet, range(arg))
    else:
        m = _uniq(arg)
        r = _call(IndexedSet, list(arg))
    if r[0] != 'ok':
        return out.fail('c11.ctor', 'IndexedSet(%r) raised %r' % (case['init'], r))
    s = r[1]
    ctx = Ctx()
    ctx.hot = []
    ctx.nontail_deletion = False
    ctx.nontrivial = False
    big = len(m) > 64
    if not _check_state(s, m, out, 'after construction', ctx):
        return out
    nary = False

    def note_removal(pos, n_before):
        if pos != n_before - 1:
            ctx.nontail_deletion = True
        ctx.hot.append(pos)
        if len(ctx.hot) > 12:
            del ctx.hot[0]

    others = []         # other live instances: [set, model]
    for step, (op, full_check) in enumerate(expand_ops(case, (1,))):
        name = op[0]
        _CURRENT[0] = m
        where = 'step %d %r' % (step, op if len(repr(op)) < 200 else op[:2])
        if name in ('clone', 'switch'):
            if name == 'clone':
                how = op[1]
                r = _call({'ctor': lambda: IndexedSet(s), 'from_iterable': lambda: IndexedSet.from_iterable(s), 'slice_all': lambda: s[:],
                           'union_none': lambda: s.union(),
                           'update_empty': lambda: (lambda e: (e.update(s), e)[1])(IndexedSet()),
                           'ior_empty': lambda: (lambda e: e.__ior__(s))(IndexedSet())}[how])
                if r[0] != 'ok' or type(r[1]) is not IndexedSet or r[1] is s:
                    return out.fail('c11.clone', '%s -> %r' % (where, r))
                if len(others) < 3:
                    others.append([r[1], list(m)])
            elif others:
                j = op[1] % len(others)
                others[j][0], s_new = s, others[j][0]
                others[j][1], m_new = m, others[j][1]
                s, m = s_new, m_new
            for os_, om_ in others:
                if not _check_state(os_, om_, out, 'after %s, other live instance' % where, ctx):
                    out.kind += '.other-instance'
                    return out
            if not _check_state(s, m, out, 'after ' + where, ctx):
                return out
            continue
        exp = ('ok', None)
        mutating = True
        if name == 'add':
            x = op[1]
            got = _call(s.add, x)
            if x not in m:
                m.append(x)
        elif name == 'update':
            operands = [_mk_operand(o) for o in op[1]]
            order = [x for o in operands for x in o]
            got = _call(s.update, *operands)
            for x in order:
                if x not in m:
                    m.append(x)
            if len(operands) >= 2:
                nary = True
        elif name in ('remove', 'discard'):
            x = op[1]
            got = _call(getattr(s, name), x)
            if x in m:
                note_removal(m.index(x), len(m))
                m.remove(x)
            elif name == 'remove':
                exp = ('exc', 'KeyError')
        elif name == 'remove_at':
            if not m:
                continue
            i = op[1] % len(m)
            x = m[i]
            got = _call(s.remove, x)
            note_removal(i, len(m))
            m.remove(x)
        elif name == 'pop':
            if not m:
                got = _call(s.pop)
                if got[0] != 'exc' or got[1] not in ('IndexError', 'KeyError'):
                    return out.fail('c11.return.pop', '%s on empty set returned %r' % (where, got))
                continue
            if op[1] is None:
                got = _call(s.pop)
                exp = ('ok', m.pop())
            else:
                i = op[1] % (2 * len(m)) - len(m)      # valid index in [-len, len)
                got = _call(s.pop, i)
                note_removal(i % len(m), len(m))
                exp = ('ok', m.pop(i))
                where += ' (index %d)' % i
        elif name == 'clear':
            got = _call(s.clear)
            m = []
        elif name == 'sort':
            got = _call(lambda: s.sort(reverse=op[1]))
            m = sorted(m, reverse=op[1])
        elif name == 'sort_key':
            # keys with ties: a stable sort keeps tied items in their *current* order
            kf = {'mod3': lambda x: x % 3, 'mod2': lambda x: x % 2, 'const': lambda x: 0, 'neg': lambda x: -x}[op[1]]
            got = _call(lambda: s.sort(key=kf, reverse=op[2]))
            m = sorted(m, key=kf, reverse=op[2])
        elif name == 'reverse':
            got = _call(s.reverse)
            m.reverse()
        elif name == 'inplace':
            o = _mk_operand(op[2])
            ol = list(o)

            def _ip(sym=op[1], s=s, o=o):
                s2 = s
                if sym == '|=':
                    s2 |= o
                elif sym == '&=':
                    s2 &= o
                elif sym == '-=':
                    s2 -= o
                else:
                    s2 ^= o
                if s2 is not s:
                    raise AssertionError('in-place operator returned another object')
            got = _call(_ip)
            if op[1] == '|=':
                m = m + [x for x in _uniq(ol) if x not in m]
            elif op[1] == '&=':
                m = [x for x in m if x in ol]
            elif op[1] == '-=':
                m = [x for x in m if x not in ol]
            else:
                m = [x for x in m if x not in ol] + [x for x in _uniq(ol) if x not in m]
            ctx.nontail_deletion = ctx.nontail_deletion or op[1] != '|='
        elif name == 'intersection_update':
            operands = [_mk_operand(o) for o in op[1]]
            got = _call(s.intersection_update, *operands)
            m = [x for x in m if all(x in o for o in operands)]
            nary = nary or len(operands) >= 2
            ctx.nontail_deletion = True
        elif name == 'difference_update':
            operands = [_mk_operand(o) for o in op[1]]
            got = _call(s.difference_update, *operands)
            m = [x for x in m if not any(x in o for o in operands)]
            nary = nary or len(operands) >= 2
            ctx.nontail_deletion = True
        elif name == 'symmetric_difference_update':
            o = _mk_operand(op[1])
            ol = _uniq(list(o))
            got = _call(s.symmetric_difference_update, o)
            m = [x for x in m if x not in ol] + [x for x in ol if x not in m]
            ctx.nontail_deletion = True
        elif name == 'remove_run':
            if not m:
                continue
            start, stride, count = op[1] % len(m), op[2], op[3]
            victims = m[start::stride][:count]
            got = ('ok', None)
            for x in victims:
                r = _call(s.remove, x)
                if r != ('ok', None):
                    got = r
                    break
                note_removal(m.index(x), len(m))
                m.remove(x)
                if len(getattr(s, 'dead_indices', ())) >= 384:
                    out.label('384_dead_intervals_reached')
        elif name == 'remove_tail':
            if not m:
                continue
            k = min(op[1], len(m))
            victims = m[-k:]
            if op[2] == 'rev':
                victims = victims[::-1]
            got = ('ok', None)
            for x in victims:
                r = _call(s.remove, x)
                if r != ('ok', None):
                    got = r
                    break
                note_removal(m.index(x), len(m))
                m.remove(x)
        elif name in ('remove_seq', 'remove_near'):
            # removals at positions relative to the ends / to the most recent removal:
            # adjacent dead slots created in every order
            got = ('ok', None)
            for d in op[1]:
                if not m:
                    break
                if name == 'remove_seq':
                    i = d % len(m) if -len(m) <= d < len(m) else 0
                else:
                    base = ctx.hot[-1] if ctx.hot else len(m) // 2
                    i = min(max(base + d, 0), len(m) - 1)
                x = m[i]
                r = _call(s.remove, x)
                if r != ('ok', None):
                    got = r
                    break
                note_removal(i, len(m))
                m.remove(x)
        elif name == 'algebra':
            mutating = False
            operands = [_mk_operand(o) for o in op[2]]
            got = _call(lambda: getattr(s, op[1])(*operands))
            if op[1] == 'union':
                e = _uniq(m + [x for o in operands for x in o])
            elif op[1] == 'intersection':
                e = [x for x in m if all(x in o for o in operands)]
            else:
                e = [x for x in m if not any(x in o for o in operands)]
            nary = nary or len(operands) >= 2
            if got[0] == 'ok' and type(got[1]) is IndexedSet:
                got = ('ok', list(got[1]))
            exp = ('ok', e)
        elif name == 'symdiff':
            mutating = False
            o = _mk_operand(op[1])
            ol = _uniq(list(o))
            got = _call(s.symmetric_difference, o)
            if got[0] == 'ok' and type(got[1]) is IndexedSet:
                got = ('ok', list(got[1]))
            exp = ('ok', [x for x in m if x not in ol] + [x for x in ol if x not in m])
        elif name == 'operator':
            mutating = False
            sym = op[1]
            kind2 = op[2][0]
            if sym.startswith('r'):
                o = set(op[2][1]) if kind2 != 'frozenset' else frozenset(op[2][1])
            else:
                o = _mk_operand(['set' if kind2 in ('list', 'tuple', 'dupes_list', 'dupes_tuple') else kind2, op[2][1]])
            ol = _uniq(list(o))
            f = {
                '|': lambda: s | o, '&': lambda: s & o, '-': lambda: s - o, '^': lambda: s ^ o,
                'r|': lambda: o | s, 'r&': lambda: o & s, 'r-': lambda: o - s, 'r^': lambda: o ^ s,
            }[sym]
            got = _call(f)
            base = sym[-1]
            if sym == 'r-':
                e = set(x for x in ol if x not in m)
                if got[0] == 'ok':
                    got = ('ok', set(got[1]))
                exp = ('ok', e)
            else:
                if base == '|':
                    e = _uniq(m + ol)
                elif base == '&':
                    e = [x for x in m if x in ol]
                elif base == '-':
                    e = [x for x in m if x not in ol]
                else:
                    e = [x for x in m if x not in ol] + [x for x in ol if x not in m]
                if got[0] == 'ok' and type(got[1]) is IndexedSet:
                    got = ('ok', list(got[1]))
                exp = ('ok', e)
        elif name == 'predicate':
            mutating = False
            o = _mk_operand(op[2])
            got = _call(getattr(s, op[1]), o)
            so, sm = set(o), set(m)
            exp = ('ok', {'issubset': sm <= so, 'issuperset': sm >= so, 'isdisjoint': not (sm & so)}[op[1]])
        elif name == 'slice':
            mutating = False
            i, j, k = op[1], op[2], op[3]
            if big:
                # scale the bounds to the size of the set
                i = None if i is None or abs(i) > 16 else i * max(1, len(m) // 16)
                j = None if j is None or abs(j) > 16 else j * max(1, len(m) // 16)
            got = _call(lambda: s[i:j:k])
            if got[0] == 'ok' and type(got[1]) is IndexedSet:
                got = ('ok', list(got[1]))
            exp = ('ok', m[i:j:k])
            where += ' -> s[%r:%r:%r]' % (i, j, k)
            if ctx.nontail_deletion:
                ctx.nontrivial = True
        else:
            raise HarnessError('op %r' % (op,))
        if exp[0] == 'ok':
            if got[:2] != exp[:2]:
                return out.fail('c11.return.' + name + ('.' + op[1] if name in ('algebra', 'operator', 'predicate', 'inplace') else ''),
                                '%s returned %s, reference %s; reference list before/after: %s' % (
                                    where, _sh(got[1]) if got[0] == 'ok' else got, _sh(exp[1]), _sh(m)))
        elif got[0] != 'exc' or got[1] != exp[1]:
            return out.fail('c11.return.' + name, '%s returned %r, reference raises %s' % (where, got, exp[1]))
        if full_check and not _check_state(s, m, out, 'after ' + where, ctx):
            return out
        if full_check:
            for os_, om_ in others:
                if not _check_state(os_, om_, out, 'after %s, other live instance' % where, ctx):
                    out.kind += '.other-instance'
                    return out
    if not _check_state(s, m, out, 'at the end', ctx):
        return out
    out.nontrivial = ctx.nontrivial or nary
    if others:
        out.label('several_live_instances')
    if case.get('repeat', 1) > 1:
        out.label('long_history')
    if ctx.nontrivial:
        out.label('positional_read_after_nontail_deletion')
    if nary:
        out.label('nary_set_operation')
    if big:
        out.label('large_initial_set')
    if getattr(s, '_compactions', 0):
        out.label('compacted')
    return out


SUBS = {
    'iset': Sub('iset', strat, run, quick=16000, thorough=320000, quick_shards=8),
}
