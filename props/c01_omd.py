"""C01 - OrderedMultiDict == insertion-ordered list of (key, value) pairs."""
import copy
import pickle

from hypothesis import strategies as st

from vlib.core import poison, Outcome, Sub, HarnessError, is_known, expand_ops, REPEATS

from boltons import dictutils
from boltons.dictutils import OrderedMultiDict
try:
    from boltons.urlutils import QueryParamDict
except Exception:       # pragma: no cover
    QueryParamDict = None

LEVEL = 'exploration'
RULE = ('constructor form + history of <=25 (quick) / 40 (thorough) public OMD operations over a pool of 9 colliding '
        'keys (0, 1, True, 1.0, "a", "b", None, (1, 2), frozenset({1})) and 10 values (some unhashable); after every step all '
        'reads are compared with a list-of-pairs reference model. non-trivial = some key held >=2 values and a '
        'removing/replacing operation was applied afterwards. distinct = distinct canonical JSON of the history.')
ASSUMPTIONS = [
    'popitem() is accepted if it returns (k, visible value of k) and removes either k\'s last pair or all of k\'s pairs',
    'update_extend(self) is not generated (statement silent)',
    'keys compare with == like dict (1, True, 1.0 are one key); no NaN keys',
    'len() is the number of distinct keys (dict API)',
]

KEYS = [0, 1, True, 1.0, 'a', 'b', None, (1, 2), frozenset({1}), -1, -2, '']     # -1/-2 collide in hash, '' 0 None are falsy
VALUES = [0, 1, 2, 'a', 'x', None, [1], [], {'k': 1}, (3, 4)]
KWNAMES = ['a', 'b', 'c']

# ---------------------------------------------------------------------------
# reference model


class IterFailed(Exception):
    pass


class PairList:
    def __init__(self):
        self.pairs = []

    def copy(self):
        p = PairList()
        p.pairs = list(self.pairs)
        return p

    def has(self, k):
        return any(pk == k for pk, _ in self.pairs)

    def vals(self, k):
        return [v for pk, v in self.pairs if pk == k]

    def drop(self, k):
        self.pairs = [(pk, v) for pk, v in self.pairs if pk != k]

    def add(self, k, v):
        self.pairs.append((k, v))

    def assign(self, k, v):
        self.drop(k)
        self.pairs.append((k, v))

    def keys(self):
        out = []
        for k, _ in self.pairs:
            if not any(k == o for o in out):
                out.append(k)
        return out

    def last(self, k):
        return self.vals(k)[-1]

    def items(self):
        return [(k, self.last(k)) for k in self.keys()]

    def poplast(self, k):
        for i in range(len(self.pairs) - 1, -1, -1):
            if self.pairs[i][0] == k:
                return self.pairs.pop(i)[1]
        raise KeyError(k)


def _mk_pairs(pl):
    return [(KEYS[k % len(KEYS)], VALUES[v % len(VALUES)]) for k, v in pl]


def _dict_of(pairs):
    d = {}
    for k, v in pairs:
        d[k] = v
    return d


def _hashable(v):
    try:
        hash(v)
        return True
    except TypeError:
        return False


# ---------------------------------------------------------------------------
# strategy

_ki = st.integers(0, len(KEYS) - 1)
_vi = st.integers(0, len(VALUES) - 1)
_pairs = st.lists(st.tuples(_ki, _vi).map(list), max_size=5)
_kw = st.lists(st.tuples(st.integers(0, len(KWNAMES) - 1), _vi).map(list), max_size=2)
_etype = st.sampled_from(['dict', 'omd', 'pairs', 'iter', 'pairs', 'iter'])


def _op():
    return st.one_of(
        st.tuples(st.just('add'), _ki, _vi),
        st.tuples(st.just('add'), _ki, _vi),
        st.tuples(st.just('addlist'), _ki, st.lists(_vi, max_size=3), st.sampled_from(['list', 'tuple', 'iter', 'gen'])),
        st.tuples(st.just('set'), _ki, _vi),
        st.tuples(st.just('del'), _ki),
        st.tuples(st.just('update'), _etype, _pairs, _kw),
        st.tuples(st.just('update_self')),
        st.tuples(st.just('update_extend'), _etype, _pairs, _kw),
        st.tuples(st.just('ior'), _etype, _pairs),
        st.tuples(st.just('setdefault'), _ki, st.one_of(st.none(), _vi)),
        st.tuples(st.just('pop'), _ki, st.one_of(st.none(), _vi)),
        st.tuples(st.just('popall'), _ki, st.one_of(st.none(), _vi)),
        st.tuples(st.just('poplast'), st.one_of(st.none(), _ki), st.one_of(st.none(), _vi)),
        st.tuples(st.just('popitem')),
        st.tuples(st.just('clear')),
        st.tuples(st.just('copy'), st.sampled_from(['copy', 'copy.copy', 'deepcopy', 'pickle0', 'pickle1', 'pickle2', 'pickle4', 'pickle5', 'ctor'])),
        # one and the same argument object passed again after the caller changed it (the OMD must not have adopted it)
        st.tuples(st.just('addlist_shared'), _ki, st.lists(_vi, max_size=3)),
        st.tuples(st.just('update_shared'), st.sampled_from(['update', 'update_extend']), _pairs),
        # a second, LIVE OrderedMultiDict (the donor) that stays in use: it is added to, handed to update / update_extend / |= of the
        # OMD under test, and changed again afterwards - both objects are compared with their own models after every such step
        st.tuples(st.just('donor_add'), _ki, _vi),
        st.tuples(st.just('donor_give'), st.sampled_from(['update', 'update_extend', 'ior']), _pairs),
        st.tuples(st.just('donor_give'), st.sampled_from(['update', 'update', 'ior']), _pairs),
        st.tuples(st.just('donor_change'), st.sampled_from(['add', 'addlist', 'poplast', 'popitem', 'set', 'del']), _ki, _vi),
        # an iterable argument that raises while it is consumed: the call raises, and the mapping is left with none or with a
        # prefix of the new pairs - never in a state whose reads disagree
        st.tuples(st.just('failing_iter'), st.sampled_from(['addlist', 'addlist', 'update_extend']), _ki, st.lists(_vi, max_size=3)),
        # many values under one key / many keys (sizes beyond the small-int cache: 257+)
        st.tuples(st.just('addmany'), _ki, st.sampled_from([257, 300]), st.sampled_from(['addlist', 'add', 'update_extend'])),
    ).map(list)


def strat(tier):
    n = 25 if tier == 'quick' else 40
    return st.fixed_dictionaries({
        'sub': st.just('omd'),
        'cls': st.sampled_from(['OMD', 'OMD', 'OMD', 'OMD', 'QPD']),
        'ctor': st.tuples(st.sampled_from(['empty', 'pairs', 'dict', 'omd', 'kwargs', 'iter', 'pairs+kwargs']), _pairs, _kw).map(list),
        'ops': st.lists(_op(), max_size=n),
        'repeat': st.sampled_from([1] * 44 + [10, 40]),
    })


# ---------------------------------------------------------------------------
# reads

def _call(f, *a, **kw):
    try:
        return ('ok', f(*a, **kw))
    except Exception as e:      # noqa
        return ('exc', type(e).__name__, str(e)[:200])


def compare_reads(omd, m, cls, out, opname):
    """Compare every read of *omd* with the model.  Returns True when all agree."""
    def bad(read, got, exp):
        out.fail('c01.read.%s' % (read.split('[')[0],), 'after %s: %s = %r, model says %r; model pairs=%r' % (
            opname, read, got, exp, m.pairs))
        return False

    pairs = m.pairs
    keys = m.keys()
    items = m.items()
    checks = [
        ('items(multi=True)', lambda: omd.items(multi=True), list(pairs)),
        ('items()', lambda: omd.items(), items),
        ('keys(multi=True)', lambda: omd.keys(multi=True), [k for k, _ in pairs]),
        ('keys()', lambda: omd.keys(), keys),
        ('values(multi=True)', lambda: omd.values(multi=True), [v for _, v in pairs]),
        ('values()', lambda: omd.values(), [v for _, v in items]),
        ('iteritems(multi=True)', lambda: list(omd.iteritems(multi=True)), list(pairs)),
        ('iteritems()', lambda: list(omd.iteritems()), items),
        ('iterkeys(multi=True)', lambda: list(omd.iterkeys(multi=True)), [k for k, _ in pairs]),
        ('itervalues()', lambda: list(omd.itervalues()), [v for _, v in items]),
        ('itervalues(multi=True)', lambda: list(omd.itervalues(multi=True)), [v for _, v in pairs]),
        ('iter', lambda: list(omd), keys),
        ('reversed', lambda: list(reversed(omd)), keys[::-1]),
        ('len', lambda: len(omd), len(keys)),
        ('bool', lambda: bool(omd), bool(keys)),
        ('todict()', lambda: omd.todict(), {k: m.last(k) for k in keys}),
        ('todict(multi=True)', lambda: omd.todict(multi=True), {k: m.vals(k) for k in keys}),
        ('counts', lambda: omd.counts().items(multi=True), [(k, len(m.vals(k))) for k in keys]),
        ('repr', lambda: repr(omd), '%s([%s])' % (cls.__name__, ', '.join(repr(p) for p in pairs))),
        ('viewkeys', lambda: list(omd.viewkeys()), keys),
        ('viewvalues', lambda: list(omd.viewvalues()), [v for _, v in items]),
        ('viewitems', lambda: list(omd.viewitems()), items),
        ('len(viewkeys)', lambda: len(omd.viewkeys()), len(keys)),
    ]
    for name, f, exp in checks:
        r = _call(f)
        if r[0] != 'ok':
            return bad(name, 'raises %s(%s)' % (r[1], r[2]), exp)
        if r[1] != exp or (name == 'repr' and r[1] != exp):
            return bad(name, r[1], exp)
        if name in ('keys()', 'iter', 'keys(multi=True)') and repr(r[1]) != repr(exp):
            return bad(name + ' (key objects)', r[1], exp)
        poison(r[1])        # the caller owns what a read returned: changing it must not show up in any later read
    # per-key reads over the whole pool
    sentinel = ('dflt',)
    for k in KEYS:
        present = m.has(k)
        exp_list = m.vals(k)
        for name, f, exp in [
            ('in', lambda: k in omd, present),
            ('get', lambda: omd.get(k), exp_list[-1] if present else None),
            ('get(default)', lambda: omd.get(k, sentinel), exp_list[-1] if present else sentinel),
            ('getlist', lambda: omd.getlist(k), exp_list),
            ('getlist(default)', lambda: omd.getlist(k, sentinel), exp_list if present else sentinel),
            ('in viewkeys', lambda: k in omd.viewkeys(), present),
        ]:
            r = _call(f)
            if r[0] != 'ok':
                return bad('%s[%r]' % (name, k), 'raises %s(%s)' % (r[1], r[2]), exp)
            if r[1] != exp:
                return bad('%s[%r]' % (name, k), r[1], exp)
            if name.startswith('getlist') and r[1] is not sentinel:
                poison(r[1])    # (get / [] hand out the stored value objects themselves: those are the caller's anyway)
        r = _call(lambda: omd[k])
        if present:
            if r[0] != 'ok' or r[1] != exp_list[-1]:
                return bad('getitem[%r]' % (k,), r, exp_list[-1])
        else:
            if r[0] != 'exc' or r[1] != 'KeyError':
                return bad('getitem[%r]' % (k,), r, 'KeyError')
    # inverted
    r = _call(lambda: omd.inverted().items(multi=True))
    if all(_hashable(v) for _, v in pairs):
        exp = [(v, k) for k, v in pairs]
        if r[0] != 'ok' or r[1] != exp:
            return bad('inverted', r, exp)
    else:
        if r[0] != 'exc' or r[1] != 'TypeError':
            return bad('inverted', r, 'TypeError (unhashable value)')
    # sorted / sortedvalues with a total key
    kf = lambda i: (repr(i[0]), repr(i[1]))   # noqa
    for rev in (False, True):
        r = _call(lambda: omd.sorted(key=kf, reverse=rev).items(multi=True))
        exp = sorted(pairs, key=kf, reverse=rev)
        if r[0] != 'ok' or r[1] != exp:
            return bad('sorted(reverse=%r)' % rev, r, exp)
        r = _call(lambda: omd.sortedvalues(key=repr, reverse=rev).items(multi=True))
        pools = {}
        for k in keys:
            pools[repr(k) if False else keys.index(k)] = sorted(m.vals(k), key=repr, reverse=rev)
        cnt = {}
        exp = []
        for k, _ in pairs:
            idx = keys.index(k)
            j = cnt.get(idx, 0)
            cnt[idx] = j + 1
            exp.append((k, pools[idx][j]))
        if r[0] != 'ok' or r[1] != exp:
            return bad('sortedvalues(reverse=%r)' % rev, r, exp)
    # a key function with ties: the sort must be stable in both directions (tied pairs keep their current order)
    for rev in (False, True):
        for nm, kt in (('by key', lambda i: repr(i[0])), ('constant', lambda i: 0)):
            r = _call(lambda: omd.sorted(key=kt, reverse=rev).items(multi=True))
            exp = sorted(pairs, key=kt, reverse=rev)
            if r[0] != 'ok' or r[1] != exp:
                return bad('sorted(key with ties %s, reverse=%r)' % (nm, rev), r, exp)
    if all(type(k) is int and type(v) is int for k, v in pairs):
        r = _call(lambda: omd.sorted().items(multi=True))
        if r[0] != 'ok' or r[1] != sorted(pairs):
            return bad('sorted()', r, sorted(pairs))
    # equality
    same = cls(pairs)
    plain = {k: m.last(k) for k in keys}
    eqs = [('== same OMD', same, True), ('== plain dict', plain, True)]
    if pairs:
        k0, v0 = pairs[-1]
        changed = cls(pairs[:-1] + [(k0, ('other', v0))])
        eqs.append(('== OMD with one value changed', changed, False))
        eqs.append(('== OMD with last pair missing', cls(pairs[:-1]), False))
        eqs.append(('== OMD with a pair more', cls(pairs + [pairs[0]]), False))
        if len(pairs) >= 2 and pairs[0] != pairs[-1]:
            eqs.append(('== OMD in another order', cls(pairs[1:] + pairs[:1]), False))
        d2 = dict(plain)
        d2[k0] = ('other', v0)
        eqs.append(('== dict with one value changed', d2, False))
        d3 = dict(plain)
        del d3[k0]
        eqs.append(('== dict with one key less', d3, False))
        firstk = keys[0]
        if firstk != k0:
            d5 = dict(plain)
            d5[firstk] = ('other',)
            eqs.append(('== dict with first key value changed', d5, False))
    d4 = dict(plain)
    d4['extra-key'] = 1
    eqs.append(('== dict with one key more', d4, False))
    # same number of keys, one key replaced by a foreign one (a lookup of the missing key must not count as "value None")
    for k_ in keys:
        d6 = dict(plain)
        del d6[k_]
        d6['foreign-key'] = plain[k_]
        eqs.append(('== dict with one key replaced by another', d6, False))
        break
    for k_ in keys:
        if plain[k_] is None:
            d7 = dict(plain)
            del d7[k_]
            d7['foreign-key'] = 1
            eqs.append(('== dict lacking a key whose value here is None', d7, False))
            break
    # an instance of a subclass of the class under test is an OMD too: same answers, whichever side it is on
    sub_cls = _SUBCLASSES.get(cls)
    if sub_cls is None:
        sub_cls = _SUBCLASSES[cls] = type('Sub' + cls.__name__, (cls,), {})
    for name, other, exp in list(eqs):
        if isinstance(other, OrderedMultiDict):
            eqs.append((name.replace('OMD', 'subclass instance'), sub_cls(other.items(multi=True)), exp))
    for name, other, exp in eqs:
        r = _call(lambda: omd == other)
        if r[0] != 'ok' or r[1] is not exp:
            return bad(name, r, exp)
        r = _call(lambda: omd != other)
        if r[0] != 'ok' or r[1] is not (not exp):
            return bad(name.replace('==', '!='), r, not exp)
        if isinstance(other, OrderedMultiDict):
            r = _call(lambda: other == omd)
            if r[0] != 'ok' or r[1] is not exp:
                return bad(name + ' (reflected)', r, exp)
    return True


_SUBCLASSES = {}


# ---------------------------------------------------------------------------
# building arguments

def _mk_E(etype, pairs, cls):
    if etype == 'dict':
        return _dict_of(pairs)
    if etype == 'omd':
        return OrderedMultiDict(pairs)
    if etype == 'pairs':
        return list(pairs)
    if etype == 'iter':
        return iter(list(pairs))
    raise HarnessError('etype %r' % (etype,))


def _model_update(m, etype, pairs, kw):
    if etype == 'dict':
        for k, v in _dict_of(pairs).items():
            m.assign(k, v)
    else:
        for k, _ in pairs:
            m.drop(k)
        for k, v in pairs:
            m.add(k, v)
    for name, v in kw:
        m.assign(name, v)


def _model_extend(m, etype, pairs, kw):
    if etype == 'dict':
        for k, v in _dict_of(pairs).items():
            m.add(k, v)
    else:
        for k, v in pairs:
            m.add(k, v)
    for name, v in kw:
        m.add(name, v)


def _mk_kw(kwl):
    d = {}
    for ni, vi in kwl:
        d[KWNAMES[ni % len(KWNAMES)]] = VALUES[vi % len(VALUES)]
    return d


def run(case):
    out = Outcome()
    cls = OrderedMultiDict if case.get('cls', 'OMD') == 'OMD' or QueryParamDict is None else QueryParamDict
    m = PairList()
    form, cp, ckw = case['ctor']
    cpairs = _mk_pairs(cp)
    ckwd = _mk_kw(ckw)
    try:
        if form == 'empty':
            omd = cls()
        elif form == 'pairs':
            omd = cls(list(cpairs))
            _model_extend(m, 'pairs', cpairs, [])
        elif form == 'iter':
            omd = cls(iter(list(cpairs)))
            _model_extend(m, 'pairs', cpairs, [])
        elif form == 'dict':
            omd = cls(_dict_of(cpairs))
            _model_extend(m, 'dict', cpairs, [])
        elif form == 'omd':
            omd = cls(OrderedMultiDict(cpairs))
            _model_extend(m, 'pairs', cpairs, [])
        elif form == 'kwargs':
            omd = cls(**ckwd)
            for k, v in ckwd.items():
                m.assign(k, v)
        elif form == 'pairs+kwargs':
            omd = cls(list(cpairs), **ckwd)
            _model_extend(m, 'pairs', cpairs, [])
            for k, v in ckwd.items():
                m.assign(k, v)
        else:
            raise HarnessError('ctor form %r' % (form,))
    except HarnessError:
        raise
    except Exception as e:
        return out.fail('c01.ctor.raises', 'constructor %s(%r, %r) raised %r' % (form, cpairs, ckwd, e))
    if not compare_reads(omd, m, cls, out, 'ctor:' + form):
        return out
    had_multi = False
    nontrivial = False
    olds = []
    shared_list = []
    shared_pairs = []
    donor = OrderedMultiDict()
    dm = PairList()
    donor_used = donor_given = False
    for op, full_check in expand_ops(case, (1,)):
        name = op[0]
        opname = name
        exp = ('ok', None)
        try:
            if name == 'add':
                k, v = KEYS[op[1] % len(KEYS)], VALUES[op[2] % len(VALUES)]
                got = _call(omd.add, k, v)
                m.add(k, v)
            elif name == 'addlist':
                k = KEYS[op[1] % len(KEYS)]
                vs = [VALUES[i % len(VALUES)] for i in op[2]]
                form = op[3]
                opname = 'addlist:' + form + (':empty' if not vs else '')
                arg = {'list': lambda: list(vs), 'tuple': lambda: tuple(vs), 'iter': lambda: iter(list(vs)),
                       'gen': lambda: (x for x in list(vs))}[form]()
                got = _call(omd.addlist, k, arg)
                for v in vs:
                    m.add(k, v)
            elif name == 'addlist_shared':
                k = KEYS[op[1] % len(KEYS)]
                vs = [VALUES[i % len(VALUES)] for i in op[2]]
                shared_list[:] = vs             # the caller's own list object, reused and changed between calls
                got = _call(omd.addlist, k, shared_list)
                for v in vs:
                    m.add(k, v)
            elif name == 'update_shared':
                pairs = _mk_pairs(op[2])
                shared_pairs[:] = pairs
                if op[1] == 'update':
                    got = _call(omd.update, shared_pairs)
                    _model_update(m, 'pairs', pairs, [])
                else:
                    got = _call(omd.update_extend, shared_pairs)
                    _model_extend(m, 'pairs', pairs, [])
            elif name == 'donor_add':
                k, v = KEYS[op[1] % len(KEYS)], VALUES[op[2] % len(VALUES)]
                got = _call(donor.add, k, v)
                dm.add(k, v)
                donor_used = True
            elif name == 'donor_give':
                opname = 'donor_give:' + op[1]
                for k, v in _mk_pairs(op[2]):       # what the donor's owner did with it since the last time
                    donor.add(k, v)
                    dm.add(k, v)
                if op[1] == 'update':
                    got = _call(omd.update, donor)
                    _model_update(m, 'omd', list(dm.pairs), [])
                elif op[1] == 'update_extend':
                    got = _call(omd.update_extend, donor)
                    _model_extend(m, 'omd', list(dm.pairs), [])
                else:
                    def _ior(o=omd, E=donor):
                        o2 = o
                        o2 |= E
                        if o2 is not o:
                            raise AssertionError('|= returned another object')
                    got = _call(_ior)
                    _model_update(m, 'omd', list(dm.pairs), [])
                if dm.pairs:
                    donor_given = True
                donor_used = True
            elif name == 'donor_change':
                k, v = KEYS[op[2] % len(KEYS)], VALUES[op[3] % len(VALUES)]
                opname = 'donor_change:' + op[1]
                donor_used = True
                got = ('ok', None)
                if op[1] == 'add':
                    got = _call(donor.add, k, v)
                    dm.add(k, v)
                elif op[1] == 'addlist':
                    got = _call(donor.addlist, k, [v, v])
                    dm.add(k, v)
                    dm.add(k, v)
                elif op[1] == 'set':
                    got = _call(donor.__setitem__, k, v)
                    dm.assign(k, v)
                elif op[1] == 'del':
                    if dm.has(k):
                        got = _call(donor.__delitem__, k)
                        dm.drop(k)
                elif op[1] == 'poplast':
                    if dm.has(k):
                        got = _call(donor.poplast, k)
                        exp = ('ok', dm.poplast(k))
                elif dm.pairs:
                    # popitem: whichever documented reading it follows, the donor is replaced by a fresh one holding what is left
                    r0 = _call(donor.popitem)
                    now = _call(lambda: donor.items(multi=True))
                    if r0[0] != 'ok' or now[0] != 'ok':
                        return out.fail('c01.return.popitem', 'popitem() on the donor %r -> %r' % (dm.pairs, r0))
                    dm.pairs = list(now[1])
                if donor_given:
                    nontrivial = True
                    out.label('donor_changed_after_it_was_given')
            elif name == 'failing_iter':
                k = KEYS[op[2] % len(KEYS)]
                vs = [VALUES[i % len(VALUES)] for i in op[3]]
                opname = 'failing_iter:' + op[1]

                def failing(k=k, vs=vs, pairs=(op[1] != 'addlist')):
                    for v in vs:
                        yield (k, v) if pairs else v
                    raise IterFailed('the iterable failed after %d items' % len(vs))
                got = _call(omd.addlist, k, failing()) if op[1] == 'addlist' else _call(omd.update_extend, failing())
                exp = ('exc', 'IterFailed')
                now = _call(lambda: omd.items(multi=True))
                for j in range(len(vs) + 1):
                    if now == ('ok', m.pairs + [(k, v) for v in vs[:j]]):
                        for v in vs[:j]:
                            m.add(k, v)
                        break
                # (no prefix matches: compare_reads below reports the disagreement against the unchanged model)
                out.label('iterable_argument_raised')
            elif name == 'addmany':
                if len(m.pairs) > 1200:
                    continue        # keep long (repeated) histories bounded
                k = KEYS[op[1] % len(KEYS)]
                n = op[2]
                vals = list(range(n))
                if op[3] == 'addlist':
                    got = _call(omd.addlist, k, vals)
                elif op[3] == 'add':
                    got = ('ok', None)
                    for v in vals:
                        r1 = _call(omd.add, k, v)
                        if r1 != ('ok', None):
                            got = r1
                            break
                else:
                    got = _call(omd.update_extend, [(k, v) for v in vals])
                for v in vals:
                    m.add(k, v)
            elif name == 'set':
                k, v = KEYS[op[1] % len(KEYS)], VALUES[op[2] % len(VALUES)]
                if m.has(k) and had_multi:
                    nontrivial = True
                got = _call(omd.__setitem__, k, v)
                m.assign(k, v)
            elif name == 'del':
                k = KEYS[op[1] % len(KEYS)]
                got = _call(omd.__delitem__, k)
                if m.has(k):
                    if had_multi:
                        nontrivial = True
                    m.drop(k)
                else:
                    exp = ('exc', 'KeyError')
            elif name in ('update', 'update_extend', 'ior'):
                etype = op[1]
                pairs = _mk_pairs(op[2])
                kwl = op[3] if len(op) > 3 else []
                kwd = _mk_kw(kwl)
                opname = '%s:%s%s' % (name, etype, '+kw' if kwd else '')
                E = _mk_E(etype, pairs, cls)
                if name == 'update':
                    got = _call(omd.update, E, **kwd)
                    _model_update(m, etype, pairs, list(kwd.items()))
                    if had_multi and pairs:
                        nontrivial = True
                elif name == 'update_extend':
                    got = _call(omd.update_extend, E, **kwd)
                    _model_extend(m, etype, pairs, list(kwd.items()))
                else:
                    def _ior(o=omd, E=E):
                        o2 = o
                        o2 |= E
                        if o2 is not o:
                            raise AssertionError('|= returned another object')
                    got = _call(_ior)
                    _model_update(m, etype, pairs, [])
                    if had_multi and pairs:
                        nontrivial = True
            elif name == 'update_self':
                got = _call(omd.update, omd)
            elif name == 'setdefault':
                k = KEYS[op[1] % len(KEYS)]
                if op[2] is None:
                    got = _call(omd.setdefault, k)
                    if not m.has(k):
                        m.assign(k, None)
                else:
                    v = VALUES[op[2] % len(VALUES)]
                    got = _call(omd.setdefault, k, v)
                    if not m.has(k):
                        m.assign(k, v)
                exp = ('ok', m.last(k))
            elif name in ('pop', 'popall'):
                k = KEYS[op[1] % len(KEYS)]
                # defaults are objects that may be identical to stored values (exposes 'is default' shortcuts)
                dflt = None if op[2] is None else VALUES[op[2] % len(VALUES)]
                if dflt is None and op[2] is not None:
                    dflt = 'dflt-none'
                f = getattr(omd, name)
                got = _call(f, k) if dflt is None else _call(f, k, dflt)
                if m.has(k):
                    vs = m.vals(k)
                    exp = ('ok', vs[-1] if name == 'pop' else vs)
                    m.drop(k)
                    if had_multi:
                        nontrivial = True
                elif dflt is None:
                    exp = ('exc', 'KeyError')
                else:
                    exp = ('ok', dflt)
            elif name == 'poplast':
                dflt = None if op[2] is None else ('default', VALUES[op[2] % len(VALUES)])
                if op[1] is None:
                    opname = 'poplast()'
                    got = _call(omd.poplast) if dflt is None else _call(omd.poplast, default=dflt)
                    if m.pairs:
                        exp = ('ok', m.pairs.pop()[1])
                        if had_multi:
                            nontrivial = True
                    elif dflt is None:
                        exp = ('exc', 'KeyError')
                    else:
                        exp = ('ok', dflt)
                else:
                    k = KEYS[op[1] % len(KEYS)]
                    got = _call(omd.poplast, k) if dflt is None else _call(omd.poplast, k, dflt)
                    if m.has(k):
                        exp = ('ok', m.poplast(k))
                        if had_multi:
                            nontrivial = True
                    elif dflt is None:
                        exp = ('exc', 'KeyError')
                    else:
                        exp = ('ok', dflt)
            elif name == 'popitem':
                got = _call(omd.popitem)
                if not m.pairs:
                    exp = ('exc', 'KeyError')
                else:
                    ok = False
                    if got[0] == 'ok' and isinstance(got[1], tuple) and len(got[1]) == 2:
                        k, v = got[1]
                        if m.has(k) and m.last(k) == v and type(m.last(k)) is type(v):
                            # either k's last pair or all of k's pairs may go
                            now = _call(lambda: omd.items(multi=True))
                            m1 = m.copy()
                            m1.poplast(k)
                            m2 = m.copy()
                            m2.drop(k)
                            if now == ('ok', m1.pairs):
                                m, ok = m1, True
                            elif now == ('ok', m2.pairs):
                                m, ok = m2, True
                    if not ok:
                        return out.fail('c01.popitem.result', 'popitem() -> %r on model pairs %r; afterwards items(multi=True)=%r' % (
                            got, m.pairs, _call(lambda: omd.items(multi=True))))
                    if had_multi:
                        nontrivial = True
                    exp = got[:2]
            elif name == 'clear':
                got = _call(omd.clear)
                if had_multi and m.pairs:
                    nontrivial = True
                m.pairs = []
            elif name == 'copy':
                how = op[1]
                opname = 'copy:' + how
                f = {
                    'copy': lambda: omd.copy(),
                    'copy.copy': lambda: copy.copy(omd),
                    'deepcopy': lambda: copy.deepcopy(omd),
                    'pickle0': lambda: pickle.loads(pickle.dumps(omd, 0)),
                    'pickle1': lambda: pickle.loads(pickle.dumps(omd, 1)),
                    'pickle2': lambda: pickle.loads(pickle.dumps(omd, 2)),
                    'pickle4': lambda: pickle.loads(pickle.dumps(omd, 4)),
                    'pickle5': lambda: pickle.loads(pickle.dumps(omd, 5)),
                    'ctor': lambda: cls(omd),
                }[how]
                r = _call(f)
                if r[0] != 'ok':
                    return out.fail('c01.copy.raises', '%s raised %r; model pairs %r' % (opname, r, m.pairs))
                new = r[1]
                if type(new) is not cls or new is omd:
                    return out.fail('c01.copy.type', '%s returned %r (%s)' % (opname, new, type(new).__name__))
                if len(olds) < 40:
                    olds.append((omd, list(m.pairs), opname))
                omd = new
                got = ('ok', None)
            else:
                raise HarnessError('unknown op %r' % (op,))
        except HarnessError:
            raise
        # --- compare the step's own result
        if exp[0] == 'ok':
            if got[0] != 'ok' or got[1] != exp[1]:
                return out.fail('c01.return.%s' % name, '%s%r returned %r, model says %r; model pairs now %r' % (
                    name, tuple(op[1:]), got, exp, m.pairs))
        else:
            if got[0] != 'exc' or got[1] != exp[1]:
                return out.fail('c01.return.%s' % name, '%s%r returned %r, model says raises %s; model pairs now %r' % (
                    name, tuple(op[1:]), got, exp[1], m.pairs))
        if full_check and not compare_reads(omd, m, cls, out, opname):
            return out
        if donor_given and full_check:
            # the two objects share nothing: whatever happened to one of them, the donor still reads as its own model says
            if name.startswith('donor_'):
                if not compare_reads(donor, dm, OrderedMultiDict, out, 'donor-after-' + opname):
                    return out
            else:
                rd = _call(lambda: (donor.items(multi=True), [donor.getlist(k_) for k_ in dm.keys()], len(donor)))
                if rd != ('ok', (dm.pairs, [dm.vals(k_) for k_ in dm.keys()], len(dm.keys()))):
                    return out.fail('c01.donor-changed', 'after %s on the OMD that was updated from it, the donor reads %r; its own history says pairs %r' % (
                        opname, rd, dm.pairs))
        if not had_multi:
            ks = m.keys()
            if len(ks) < len(m.pairs):
                had_multi = True
    if case.get('repeat', 1) > 1:
        out.label('long_history')
        if not compare_reads(omd, m, cls, out, 'end-of-long-history'):
            return out
    # copies made on the way must not have been affected by later operations
    for old, snap, opname in olds:
        r = _call(lambda: old.items(multi=True))
        if r != ('ok', snap):
            return out.fail('c01.copy.source-changed', 'object that was copied by %s changed afterwards: %r, expected %r' % (
                opname, r, snap))
    out.nontrivial = nontrivial
    if nontrivial:
        out.label('nontrivial')
    if had_multi:
        out.label('had_multi_values')
    if olds:
        out.label('copied')
    if cls is not OrderedMultiDict:
        out.label('QueryParamDict')
    return out


SUBS = {
    'omd': Sub('omd', strat, run, quick=7000, thorough=320000, doc='OMD histories vs list-of-pairs model',
               quick_shards=16),
}
