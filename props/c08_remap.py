"""C08 - remap == bottom-up recursive rebuild; research paths retrievable with get_path."""
import enum

from hypothesis import strategies as st

from vlib.core import Outcome, Sub, HarnessError, is_known

from boltons import iterutils
from boltons.iterutils import remap, research, get_path, default_enter, default_exit

LEVEL = 'exploration'
RULE = ('inputs are *construction programs*: instructions leaf/list/tuple/dict/set/frozenset whose members refer to earlier objects '
        '(so sub-objects are shared -> DAGs; hashability enforced constructively), followed by 0-2 patch instructions (append to an '
        'earlier list / assign into an earlier dict) that close reference cycles; up to 25 nodes. visit functions are decision tables '
        'keyed by (len(path)%3, type-class of value, class of key) -> keep/drop/same pair/rewrite key/rewrite value/wrap, or the default '
        'visit. Oracle: memoised recursive rebuild + lock-step graph walk (types, dict key order, sequence order, set members, and the '
        'sharing relation as a bijection of node identities) + equality of the visit call logs. non-trivial = depth >= 2 and (a shared '
        'node, a cycle, or a non-default visit that dropped/rewrote something). distinct = distinct canonical JSON of the case.')
ASSUMPTIONS = [
    'visit rewrites keep members of sets / dict keys hashable; leaves are finite scalars (no NaN)',
    'cycles closed through a tuple/frozenset (back-edge to an immutable container that is still being built) are only checked for '
    'termination, root type and non-mutation of the input',
    'research paths that traverse a set/frozenset use enumeration indices, which get_path cannot follow: recorded known finding',
]

KNOWN_SET_PATH = 'c08.get_path-through-set'
class StrSub(str):
    """a str subclass (markup-safe strings, path-like strings, enum mixins): a scalar leaf like any str"""


class BytesSub(bytes):
    pass


class Color(str, enum.Enum):
    RED = 'red'


SCALARS = [0, 1, 2, -1, 'a', 'b', '', None, 1.5, b'x', True, 'key', StrSub('tag'), BytesSub(b'bt'), Color.RED, StrSub(''),
           # keys that look like dotted paths
           'v1.2', 'a.b', '.', '0']


def _call(f, *a, **kw):
    try:
        return ('ok', f(*a, **kw))
    except RecursionError as e:
        return ('exc', 'RecursionError', '')
    except Exception as e:      # noqa
        return ('exc', type(e).__name__, str(e)[:200])


# ---------------------------------------------------------------------------
# construction programs

_ref = st.integers(0, 40)
_refs = st.lists(_ref, max_size=4)


def _instr():
    return st.one_of(
        st.tuples(st.just('leaf'), st.integers(0, len(SCALARS) - 1)),
        st.tuples(st.just('leaf'), st.integers(0, len(SCALARS) - 1)),
        st.tuples(st.just('list'), _refs), st.tuples(st.just('list'), _refs),
        st.tuples(st.just('tuple'), _refs),
        st.tuples(st.just('dict'), st.lists(st.tuples(_ref, _ref).map(list), max_size=4)),
        st.tuples(st.just('dict'), st.lists(st.tuples(_ref, _ref).map(list), max_size=4)),
        st.tuples(st.just('set'), _refs),
        st.tuples(st.just('frozenset'), _refs),
    ).map(list)


# scale classes: containers with thousands of members (around 2048 / 4096), and thousands of containers between two
# references to one shared object
BIG = [2049, 4097, 4100, 8193]


def _big_instr():
    return st.tuples(st.sampled_from(['biglist', 'bigdict', 'bigset', 'manylists', 'manylists']), st.integers(0, len(BIG) - 1), _ref).map(list)


_ACTIONS = ['keep', 'keep', 'keep', 'drop', 'same', 'rekey', 'revalue', 'wrap', 'retype', 'rekey_reorder']


def strat(tier):
    n = 14 if tier == 'quick' else 25
    return st.fixed_dictionaries({
        'sub': st.just('remap'),
        'prog': st.integers(0, 11).flatmap(lambda i: st.lists(_instr(), min_size=1, max_size=n) if i else
                                           st.tuples(st.lists(_instr(), min_size=1, max_size=6), _big_instr(), st.lists(_instr(), max_size=3)).map(
                                               lambda t: t[0] + [t[1]] + t[2])),
        'patches': st.lists(st.tuples(st.sampled_from(['append', 'setitem']), _ref, _ref, _ref).map(list), max_size=2),
        'root': _ref,
        'prior': st.sampled_from([None, None, None, 'unhashable_key', 'visit_raises', 'unhashable_member', 'enter_raises', 'opaque_enter', 'opaque_enter']),
        'visit': st.one_of(st.none(), st.none(),
                           st.lists(st.sampled_from(_ACTIONS), min_size=30, max_size=30),
                           st.lists(st.sampled_from(['keep', 'keep', 'keep', 'keep', 'drop', 'revalue', 'retype']), min_size=30, max_size=30)),
    })


def _hashable(x):
    try:
        hash(x)
        return True
    except TypeError:
        return False


def build(case):
    objs = []
    hpool = []

    def h(ref):
        return hpool[ref % len(hpool)] if hpool else 0

    def o(ref):
        if not objs:
            return 0
        if ref % 2:      # odd refs: one of the most recent objects (deep nesting); even: any earlier object (sharing)
            return objs[len(objs) - 1 - (ref // 2) % min(len(objs), 4)]
        return objs[(ref // 2) % len(objs)]
    for ins in case['prog']:
        kind = ins[0]
        if kind == 'leaf':
            x = SCALARS[ins[1] % len(SCALARS)]
        elif kind == 'list':
            x = [o(r) for r in ins[1]]
        elif kind == 'tuple':
            x = tuple(o(r) for r in ins[1])
        elif kind == 'dict':
            x = {}
            for kr, vr in ins[1]:
                x[h(kr)] = o(vr)
        elif kind == 'set':
            x = set(h(r) for r in ins[1])
        elif kind == 'frozenset':
            x = frozenset(h(r) for r in ins[1])
        elif kind == 'biglist':
            x = [o(ins[2])] + list(range(BIG[ins[1] % len(BIG)] - 2)) + [o(ins[2])]
        elif kind == 'bigdict':
            x = {i: i for i in range(BIG[ins[1] % len(BIG)] - 1)}
            x['last'] = o(ins[2])
        elif kind == 'bigset':
            x = set(range(BIG[ins[1] % len(BIG)] - 1))
            x.add(h(ins[2]))
        elif kind == 'manylists':
            x = [o(ins[2])] + [[i] for i in range(BIG[ins[1] % len(BIG)])] + [o(ins[2])]
        else:
            raise HarnessError('instruction %r' % (ins,))
        objs.append(x)
        if _hashable(x):
            hpool.append(x)
    lists = [x for x in objs if type(x) is list]
    dicts = [x for x in objs if type(x) is dict]
    cyc = False
    for p in case['patches']:
        if p[0] == 'append' and lists:
            lists[p[1] % len(lists)].append(o(p[3]))
            cyc = True
        elif p[0] == 'setitem' and dicts:
            dicts[p[1] % len(dicts)][h(p[2])] = o(p[3])
            cyc = True
    containers = [x for x in objs if isinstance(x, (list, tuple, dict, set, frozenset))]
    if not containers:
        return [o(0)], cyc
    return containers[case['root'] % len(containers)] if case['root'] % 3 else containers[-1], cyc


# ---------------------------------------------------------------------------
# visit programs

def tclass(v):
    for i, t in enumerate((bool, int, str, type(None), float, bytes, list, tuple, dict, set, frozenset)):
        if type(v) is t:
            return i
    return 11


def kclass(k):
    if type(k) is int:
        return k % 3
    if type(k) is str:
        return len(k) % 3
    return 0


def make_visit(table, log):
    def visit(path, key, value):
        log.append((path, repr(key), tclass(value)))
        if table is None:
            return key, value
        act = table[(len(path) % 3) * 10 + (tclass(value) * 3 + kclass(key)) % 10]
        if act == 'keep':
            return True
        if act == 'drop':
            return False
        if act == 'same':
            return key, value
        if act == 'rekey':
            return ('K', key), value
        if act == 'revalue':
            if isinstance(value, (list, tuple, dict, set, frozenset)):
                return key, len(value)
            return key, ('V', value)
        if act == 'rekey_reorder':
            # new keys whose sort order differs from the visiting order (-index, str(index)): keys of sequence items are to be
            # ignored and the items stay in visit order; dict items keep their insertion order under the new keys
            if type(key) is int:
                return (-key if kclass(key) else str(key)), value
            return ('K', key), value
        if act == 'retype':
            # replace a number by an EQUAL value of another type (1 -> 1.0, True -> 1, 2.0 -> 2): the output must hold the new one
            if type(value) is bool:
                return key, int(value)
            if type(value) is int:
                return key, float(value)
            if type(value) is float and value == int(value):
                return key, int(value)
            return key, value
        if act == 'wrap':
            return key, (value,)
        raise HarnessError('action %r' % (act,))
    return visit


# ---------------------------------------------------------------------------
# reference: memoised bottom-up recursive rebuild

class Loose(Exception):
    pass


def ref_remap(root, visit):
    memo = {}
    in_progress = set()
    state = {'loose': False}

    def rebuild(value, path, key, is_root):
        if isinstance(value, (str, bytes)) or not isinstance(value, (list, tuple, dict, set, frozenset)):
            return value
        vid = id(value)
        if vid in memo:
            if vid in in_progress and not isinstance(value, (list, dict, set)):
                state['loose'] = True
            return memo[vid]
        blank = type(value)()
        memo[vid] = blank
        in_progress.add(vid)
        child_path = path if is_root else path + (key,)
        pairs = list(value.items()) if isinstance(value, dict) else list(enumerate(value))
        items = []
        for k, v in pairs:
            nv = rebuild(v, child_path, k, False)
            r = visit(child_path, k, nv)
            if r is False:
                continue
            if r is True:
                r = (k, nv)
            items.append(r)
        if isinstance(value, dict):
            blank.update(items)
            new = blank
        elif isinstance(value, list):
            blank.extend([v for _, v in items])
            new = blank
        elif isinstance(value, set):
            blank.update([v for _, v in items])
            new = blank
        else:
            new = type(value)([v for _, v in items])
        memo[vid] = new
        in_progress.discard(vid)
        return new

    return rebuild(root, (), None, True), state['loose']


# ---------------------------------------------------------------------------
# structure utilities

def snapshot(root):
    """structure + identities, cycle-safe"""
    seen = {}
    out = []

    def walk(x):
        if isinstance(x, (list, tuple, dict, set, frozenset)):
            if id(x) in seen:
                out.append(('ref', seen[id(x)]))
                return
            seen[id(x)] = len(seen)
            out.append((type(x).__name__, id(x), len(x)))
            if isinstance(x, dict):
                for k, v in x.items():
                    out.append(('key', repr(k)))
                    walk(v)
            elif isinstance(x, (list, tuple)):
                for v in x:
                    walk(v)
            else:
                out.append(('members', _canon(x)))
        else:
            out.append(('leaf', type(x).__name__, repr(x)))
    walk(root)
    return out


def mutable_ids(root):
    ids = set()
    seen = set()

    def walk(x):
        if isinstance(x, (list, tuple, dict, set, frozenset)):
            if id(x) in seen:
                return
            seen.add(id(x))
            if isinstance(x, (list, dict, set)):
                ids.add(id(x))
            for v in (x.values() if isinstance(x, dict) else x):
                walk(v)
    walk(root)
    return ids


def depth_and_sharing(root):
    seen = {}
    shared = [False]

    def walk(x, d):
        if not isinstance(x, (list, tuple, dict, set, frozenset)):
            return d
        if id(x) in seen:
            if isinstance(x, (list, dict, set)) or len(x):
                shared[0] = True
            return d
        seen[id(x)] = True
        m = d + 1
        for v in (x.values() if isinstance(x, dict) else x):
            m = max(m, walk(v, d + 1))
        return m
    return walk(root, 0), shared[0]


def compare(a, b):
    """lock-step walk of reference result a and remap result b. Returns None or a message."""
    a2b, b2a = {}, {}
    stack = [(a, b, 'root')]
    while stack:
        x, y, where = stack.pop()
        if type(x) is not type(y):
            return '%s: type %s vs %s (%r vs %r)' % (where, type(x).__name__, type(y).__name__, _short(x), _short(y))
        if isinstance(x, (list, tuple, dict)):
            if id(x) in a2b or id(y) in b2a:
                if a2b.get(id(x)) != id(y) or b2a.get(id(y)) != id(x):
                    return '%s: sharing differs (an object referenced several times is not the same object in the output)' % where
                continue
            if type(x) is not tuple or len(x):
                a2b[id(x)] = id(y)
                b2a[id(y)] = id(x)
            if len(x) != len(y):
                return '%s: length %d vs %d (%s vs %s)' % (where, len(x), len(y), _short(x), _short(y))
            if isinstance(x, dict):
                kx, ky = list(x), list(y)
                if [repr(k) for k in kx] != [repr(k) for k in ky]:
                    return '%s: dict keys/order %r vs %r' % (where, kx, ky)
                for k in kx:
                    stack.append((x[k], y[k], '%s[%r]' % (where, k)))
            else:
                for i, (u, v) in enumerate(zip(x, y)):
                    stack.append((u, v, '%s[%d]' % (where, i)))
        elif isinstance(x, (set, frozenset)):
            if isinstance(x, set):
                if id(x) in a2b or id(y) in b2a:
                    if a2b.get(id(x)) != id(y) or b2a.get(id(y)) != id(x):
                        return '%s: sharing differs for a set' % where
                    continue
                a2b[id(x)] = id(y)
                b2a[id(y)] = id(x)
            if x != y or _canon(x) != _canon(y):
                return '%s: set members %r vs %r' % (where, x, y)
        else:
            if x != y or repr(x) != repr(y):
                return '%s: leaf %r vs %r' % (where, x, y)
    return None


def _canon(x):
    """order-independent canonical form of an immutable (hashable) value, type-exact"""
    if isinstance(x, (set, frozenset)):
        return (type(x).__name__, sorted((_canon(m) for m in x), key=repr))
    if isinstance(x, tuple):
        return ('tuple', [_canon(m) for m in x])
    return (type(x).__name__, repr(x))


def _short(x):
    try:
        r = repr(x)
    except RecursionError:
        r = '<cyclic %s>' % type(x).__name__
    return r if len(r) < 200 else r[:200] + '...'


def _follow(root, path):
    """which container kind sits at each segment of the path (walking with enumeration for sets)"""
    cur = root
    kinds = []
    for seg in path:
        kinds.append(type(cur))
        if isinstance(cur, (set, frozenset)):
            cur = list(cur)[seg]
        else:
            cur = cur[seg]
    return kinds, cur


def _raising_visit(path, key, value):
    if value == (2, 3) or value == 4:
        raise ValueError('visit refuses %r' % (value,))
    return True


def _raising_enter(path, key, value):
    if isinstance(value, tuple):
        raise RuntimeError('enter refuses tuples')
    return iterutils.default_enter(path, key, value)


def run(case):
    out = Outcome()
    root, patched = build(case)
    before = snapshot(root)
    in_ids = mutable_ids(root)
    depth, shared = depth_and_sharing(root)
    table = case['visit']
    log_ref, log_real = [], []
    try:
        exp, loose = ref_remap(root, make_visit(table, log_ref))
    except TypeError as e:
        raise HarnessError('reference failed (unhashable rewrite?): %r' % (e,))
    rootdesc = _short(root)
    prior = case.get('prior')
    if prior:
        # process history: an earlier remap() call that failed (its exception caught by the caller) must not influence this one
        if prior == 'unhashable_key':
            _call(remap, {'a': 1, 'b': [2]}, lambda p, k, v: ([k], v))
        elif prior == 'visit_raises':
            _call(remap, [1, {'x': (2, 3)}, {4}], _raising_visit)
        elif prior == 'unhashable_member':
            _call(remap, [{1, 2}, frozenset([3])], lambda p, k, v: (k, [v]) if isinstance(v, int) else (k, v))
        elif prior == 'enter_raises':
            _call(remap, {'k': [1, (2,)]}, enter=_raising_enter)
        elif prior == 'opaque_enter':
            # ... and neither must earlier SUCCESSFUL calls that used their own callbacks: enter functions that treat one of the
            # built-in container types as opaque (the documented way to keep remap out of them), a custom exit, a research() call
            sample = [(1, [2]), frozenset([3]), [4, [5]], {'k': [6], 'j': {'i': 7}}, {8}]
            for T in (tuple, frozenset, list, dict, set):
                _call(remap, sample, enter=lambda p, k, v, T=T: (v, False) if isinstance(v, T) and v is not sample else default_enter(p, k, v))
            _call(remap, sample, exit=lambda p, k, old, new, items: default_exit(p, k, old, new, items))
            _call(research, sample, lambda p, k, v: isinstance(v, int), enter=lambda p, k, v: (v, False) if isinstance(v, tuple) else default_enter(p, k, v))
        out.label(('after_failed_call:' if prior != 'opaque_enter' else 'after_calls_with_custom_callbacks:') + prior)
    r = _call(remap, root, make_visit(table, log_real)) if table is not None else _call(remap, root)
    if snapshot(root) != before:
        return out.fail('c08.input-mutated', 'remap mutated its input %s' % rootdesc)
    if r[0] != 'ok':
        return out.fail('c08.remap-raises', 'remap(%s, visit=%s) -> %r' % (rootdesc, 'default' if table is None else 'table', r))
    got = r[1]
    cyclic = False
    try:
        repr(root)
        cyclic = '...' in repr(root)
    except RecursionError:
        cyclic = True
    if loose:
        if type(got) is not type(exp):
            return out.fail('c08.root-type', 'remap(%s) returned a %s' % (rootdesc, type(got).__name__))
        out.label('cycle_through_immutable(loose)')
    else:
        msg = compare(exp, got)
        if msg:
            return out.fail('c08.rebuild-mismatch', 'remap(%s, visit=%s) differs from the recursive rebuild at %s; remap -> %s, reference -> %s' % (
                rootdesc, 'default' if table is None else table, msg, _short(got), _short(exp)))
        if table is not None and log_ref != log_real:
            i = next((j for j in range(min(len(log_ref), len(log_real))) if log_ref[j] != log_real[j]), min(len(log_ref), len(log_real)))
            return out.fail('c08.visit-calls', 'visit was called differently for %s: call #%d remap %r vs reference %r (%d vs %d calls)' % (
                rootdesc, i, log_real[i] if i < len(log_real) else None, log_ref[i] if i < len(log_ref) else None, len(log_real), len(log_ref)))
        if table is None:
            msg = compare(root, got)
            if msg:
                return out.fail('c08.default-not-equal', 'remap(%s) with default callbacks is not an equal copy: %s' % (rootdesc, msg))
            common = mutable_ids(got) & in_ids
            if common:
                return out.fail('c08.default-shares-mutable', 'remap(%s) with default callbacks shares %d mutable container(s) with the input' % (
                    rootdesc, len(common)))
    # research / get_path
    rr = _call(research, root)
    if rr[0] != 'ok':
        return out.fail('c08.research-raises', 'research(%s) -> %r' % (rootdesc, rr))
    if snapshot(root) != before:
        return out.fail('c08.input-mutated', 'research mutated its input %s' % rootdesc)
    n_paths = 0
    for path, value in rr[1]:
        if path == (None,) and value is root:
            continue
        n_paths += 1
        g = _call(get_path, root, path)
        if g[0] == 'ok' and g[1] is value:
            continue
        try:
            kinds, real = _follow(root, path)
        except Exception as e:
            return out.fail('c08.research-path-invalid', 'research(%s) reported path %r -> %s which does not exist: %r' % (rootdesc, path, _short(value), e))
        if real is not value and not (real == value and not isinstance(value, (list, dict, set))):
            return out.fail('c08.research-path-wrong-value', 'research(%s) reported %r -> %s, but that path leads to %s' % (
                rootdesc, path, _short(value), _short(real)))
        if any(k in (set, frozenset) for k in kinds):
            if is_known(KNOWN_SET_PATH):
                if KNOWN_SET_PATH not in out.excluded:
                    out.excluded.append(KNOWN_SET_PATH)
                continue
            return out.fail(KNOWN_SET_PATH, 'research(%s) reports %r -> %s; get_path on it -> %r (the path goes through a set)' % (
                rootdesc, path, _short(value), g))
        if g[0] == 'ok' and g[1] == value and not isinstance(value, (list, dict, set)):
            continue        # equal immutable value (e.g. small ints / interned strings)
        return out.fail('c08.get_path', 'research(%s) reports %r -> %s; get_path on it -> %r' % (rootdesc, path, _short(value), g))
    changed = table is not None and any(a in ('drop', 'rekey', 'revalue', 'wrap') for a in table) and bool(log_ref)
    out.nontrivial = depth >= 2 and (shared or cyclic or changed)
    if shared:
        out.label('shared_subobject')
    if cyclic:
        out.label('cycle')
    if changed:
        out.label('visit_rewrites')
    if depth >= 3:
        out.label('depth>=3')
    for ins in case['prog']:
        if ins[0] in ('biglist', 'bigdict', 'bigset', 'manylists'):
            out.label('big:%s:%d' % (ins[0], BIG[ins[1] % len(BIG)]))
    return out


SUBS = {
    'remap': Sub('remap', strat, run, quick=12000, thorough=320000, quick_shards=8),
}
