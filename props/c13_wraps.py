"""C13 - funcutils.wraps / update_wrapper preserve signature and call behaviour."""
import functools
import inspect
import types
import itertools
import keyword

from hypothesis import strategies as st

from vlib.core import Outcome, Sub, HarnessError, is_known, case_hash

from boltons import funcutils
from boltons.funcutils import wraps, update_wrapper

LEVEL = 'exploration'
RULE = ('a case is a function signature (positional-or-keyword parameters with trailing defaults, *args, keyword-only parameters with or '
        'without defaults, **kwargs, annotations, sync/async, def or lambda, extra function attributes) compiled from generated source whose '
        'body returns its bound arguments. For each: wraps() and update_wrapper() around a pass-through wrapper, compared with the original '
        'on inspect.signature(follow_wrapped=False), __name__/__doc__/__module__/__wrapped__, coroutine-ness and on every call shape '
        '(0..n+2 positional arguments x every subset of the parameter names plus one unknown name as keywords): TypeError iff the original '
        'raises TypeError, else identical bound arguments. injected=[p] for every parameter (and pairs, and an absent name) and expected '
        '(bare name / (name, default) / mapping) are checked on the resulting own signature. The finite core (<=3 positional, <=2 keyword-only: '
        '1120 signatures) is enumerated exhaustively in every run; Hypothesis adds larger random signatures. non-trivial = the signature has '
        '>= 2 parameter kinds or a default. distinct = distinct canonical JSON of the signature case.')
ASSUMPTIONS = [
    'positional-only parameters are outside the statement; parameter names are identifiers other than keywords and the two names the builder injects (_call, _func)',
    'expected=bare name after positional defaults is a recorded known finding (the default migrates to the new parameter)',
]
KNOWN_EXPECTED = 'c13.expected-no-default-after-defaults'


def _call(f, *a, **kw):
    try:
        return ('ok', f(*a, **kw))
    except Exception as e:      # noqa
        return ('exc', type(e).__name__, str(e)[:200])


# ---------------------------------------------------------------------------
# building the function under test from a case

def build_function(case):
    pos = case['pos']
    kwonly = case['kwonly']
    names = [p[0] for p in pos] + [k[0] for k in kwonly] + [n for n in (case['varargs'], case['varkw']) if n]
    if len(set(names)) != len(names):
        raise HarnessError('duplicate parameter names')
    for n in names:
        if not n.isidentifier() or keyword.iskeyword(n) or n in ('_call', '_func', '_d', '_rec', 'None', 'True', 'False'):
            raise HarnessError('bad parameter name %r' % n)
    seen_default = False
    for _, d in pos:
        if seen_default and not d:
            raise HarnessError('non-default parameter after default')
        seen_default = seen_default or d
    defaults = {}
    annot = case['annot']

    def ann(n, i):
        if not annot:
            return ''
        if annot == 'str':
            return ": 'T%d'" % i
        return ': ' + ['int', 'str', 'list', 'float'][i % 4]

    def dval(n, i):
        kinds = [('D', n), [i], {'k': i}, None, 0, 'dflt']
        if case.get('rich_defaults') == 'equalish':
            kinds = [0, False, 0.0, 1, True, 1.0]       # equal for ==, distinguishable by type: each must stay with its parameter
        defaults[n] = kinds[i % len(kinds)] if case.get('rich_defaults') else ('D', n)
        return '=_d[%r]' % n
    parts = []
    i = 0
    for n, d in pos:
        parts.append(n + ann(n, i) + (dval(n, i) if d else ''))
        i += 1
    if case['varargs']:
        parts.append('*' + case['varargs'] + ann(case['varargs'], i))
        i += 1
    elif kwonly:
        parts.append('*')
    for n, d in kwonly:
        parts.append(n + ann(n, i) + (dval(n, i) if d else ''))
        i += 1
    if case['varkw']:
        parts.append('**' + case['varkw'] + ann(case['varkw'], i))
    rec = '{' + ', '.join('%r: %s' % (n, n) for n in names) + '}'
    fname = 'target_fn'
    ns = {'_d': defaults}
    gen = case.get('gen')       # None, 'gen' (generator function) or 'asyncgen' (async generator function)
    if case.get('lambda') and not case['async'] and not annot and not gen:
        src = '%s = lambda %s: %s\n' % (fname, ', '.join(parts), rec)
    else:
        ret = ''
        if annot:
            ret = " -> 'R'" if annot == 'str' else ' -> dict'
        body = '    return %s\n' % rec if not gen else "    yield 'first'\n    yield %s\n" % rec
        src = '%sdef %s(%s)%s:\n%s%s' % (
            'async ' if (case['async'] and not gen) or gen == 'asyncgen' else '', fname, ', '.join(parts), ret,
            '    "documentation of the target"\n' if case.get('doc', True) else '', body)
    exec(compile(src, '<c13-case>', 'exec'), ns)
    f = ns[fname]
    f.__module__ = 'c13_generated_module'
    if case.get('attrs'):
        f.custom_attribute = ['marker']
        f.other = 5
    return f, src, names, defaults


def drive(value, is_async):
    if is_async == 'gen':
        if not isinstance(value, types.GeneratorType):
            return ('not-a-generator', type(value).__name__)
        return ('gen', list(value))
    if is_async == 'asyncgen':
        if not isinstance(value, types.AsyncGeneratorType):
            if inspect.iscoroutine(value):
                value.close()
            return ('not-an-async-generator', type(value).__name__)
        items = []
        while True:
            step = value.__anext__()
            try:
                step.send(None)
            except StopIteration as e:
                items.append(e.value)
                continue
            except StopAsyncIteration:
                return ('asyncgen', items)
            raise AssertionError('async generator suspended')
    if not is_async:
        return value
    try:
        value.send(None)
    except StopIteration as e:
        return e.value
    raise AssertionError('coroutine did not finish')


def call_shapes(case, names_kw):
    npos = len(case['pos'])
    all_names = names_kw + ['zz_unknown']
    if len(all_names) <= 7:
        subsets = list(itertools.chain.from_iterable(itertools.combinations(all_names, r) for r in range(len(all_names) + 1)))
    else:
        subsets = []
        for mask in range(0, 1 << len(all_names), max(1, (1 << len(all_names)) // 96)):
            subsets.append(tuple(n for i, n in enumerate(all_names) if mask >> i & 1))
        subsets.append(tuple(all_names))
        subsets.append(tuple(names_kw))
    for k in range(0, npos + 3):
        for sub in subsets:
            yield k, sub


class _Typed:
    """a default compared by type AND value (0, False and 0.0 are equal for ==, but not the same default)"""
    __slots__ = ('v',)

    def __init__(self, v):
        self.v = v

    def __eq__(self, other):
        if isinstance(other, _Typed):
            return type(self.v) is type(other.v) and self.v == other.v
        return type(self.v) is type(other) and self.v == other

    def __ne__(self, other):
        return not self.__eq__(other)

    def __repr__(self):
        return repr(self.v)


def sig_summary(sig):
    return [(p.name, p.kind.name, 'EMPTY' if p.default is inspect.Parameter.empty else _Typed(p.default),
             'EMPTY' if p.annotation is inspect.Parameter.empty else p.annotation) for p in sig.parameters.values()]


def passthrough(f):
    def wrapper(*a, **k):
        return f(*a, **k)
    return wrapper


def run(case):
    out = Outcome()
    try:
        f, src, names, defaults = build_function(case)
    except SyntaxError as e:
        raise HarnessError('generated source does not compile: %r' % (e,))
    is_async = case.get('gen') or bool(case['async'])
    sig_f = inspect.signature(f)
    kinds = {p.kind for p in sig_f.parameters.values()}
    has_default = any(p.default is not inspect.Parameter.empty for p in sig_f.parameters.values())
    out.nontrivial = len(kinds) >= 2 or has_default
    desc = src.strip().splitlines()[0]
    names_kw = [p[0] for p in case['pos']] + [k[0] for k in case['kwonly']]
    shapes = 0
    accepted = 0
    for variant in ('wraps', 'update_wrapper'):
        wrapper = passthrough(f)
        r = _call(lambda: wraps(f)(wrapper)) if variant == 'wraps' else _call(update_wrapper, wrapper, f)
        if r[0] != 'ok':
            return out.fail('c13.wrap-raises', '%s(%s) -> %r' % (variant, desc, r))
        w = r[1]
        sig_w = _call(inspect.signature, w, follow_wrapped=False)
        if sig_w[0] != 'ok' or sig_w[1] != sig_f:
            return out.fail('c13.signature', '%s: own signature of the wrapped function is %s, original %s' % (
                desc, sig_w[1] if sig_w[0] == 'ok' else sig_w, sig_f))
        if sig_summary(sig_w[1]) != sig_summary(sig_f):
            return out.fail('c13.signature', '%s: parameters %r vs %r' % (desc, sig_summary(sig_w[1]), sig_summary(sig_f)))
        for attr in ('__name__', '__doc__', '__module__'):
            if getattr(w, attr, 'MISSING') != getattr(f, attr):
                return out.fail('c13.metadata', '%s: %s is %r, original %r' % (desc, attr, getattr(w, attr, 'MISSING'), getattr(f, attr)))
        if getattr(w, '__wrapped__', None) is not f:
            return out.fail('c13.wrapped-attr', '%s: __wrapped__ is %r' % (desc, getattr(w, '__wrapped__', None)))
        if inspect.iscoroutinefunction(w) != (is_async is True):
            return out.fail('c13.async', '%s: iscoroutinefunction(wrapped) = %r' % (desc, inspect.iscoroutinefunction(w)))
        if case.get('attrs') and (getattr(w, 'custom_attribute', None) != ['marker'] or getattr(w, 'other', None) != 5):
            return out.fail('c13.metadata', '%s: function attributes not copied' % desc)
        for k, sub in call_shapes(case, names_kw):
            args = tuple(('P', i) for i in range(k))
            kwargs = {n: ('K', n) for n in sub}
            shapes += 1
            a = _call(lambda: drive(f(*args, **kwargs), is_async))
            b = _call(lambda: drive(w(*args, **kwargs), is_async))
            if a[0] == 'exc' and a[1] != 'TypeError':
                raise HarnessError('original raised %r' % (a,))
            if a[0] == 'exc':
                if b[0] != 'exc' or b[1] != 'TypeError':
                    return out.fail('c13.accepts-invalid-call', '%s: call with %d positional and keywords %r: original raises TypeError, wrapped -> %r' % (
                        desc, k, sorted(kwargs), b))
            else:
                accepted += 1
                if b[0] != 'ok':
                    return out.fail('c13.rejects-valid-call', '%s: call with %d positional and keywords %r: original returns %r, wrapped -> %r' % (
                        desc, k, sorted(kwargs), a[1], b))
                if b[1] != a[1]:
                    return out.fail('c13.forwarding', '%s: call with %d positional and keywords %r: original sees %r, through the wrapper %r' % (
                        desc, k, sorted(kwargs), a[1], b[1]))
    # ---- update_dict=False: everything but the copy of custom attributes stays as documented -------------------
    r = _call(update_wrapper, passthrough(f), f, update_dict=False)
    if r[0] != 'ok':
        return out.fail('c13.wrap-raises', 'update_wrapper(%s, update_dict=False) -> %r' % (desc, r))
    w = r[1]
    sw = _call(lambda: sig_summary(inspect.signature(w, follow_wrapped=False)))
    if sw != ('ok', sig_summary(sig_f)):
        return out.fail('c13.signature', '%s with update_dict=False: parameters %r vs %r' % (desc, sw, sig_summary(sig_f)))
    for attr in ('__name__', '__doc__', '__module__'):
        if getattr(w, attr, 'MISSING') != getattr(f, attr):
            return out.fail('c13.metadata.update_dict_false', '%s with update_dict=False: %s is %r, original %r' % (
                desc, attr, getattr(w, attr, 'MISSING'), getattr(f, attr)))
    for k, sub in list(call_shapes(case, names_kw))[::9]:
        args = tuple(('P', i) for i in range(k))
        kwargs = {n: ('K', n) for n in sub}
        a = _call(lambda: drive(f(*args, **kwargs), is_async))
        b = _call(lambda: drive(w(*args, **kwargs), is_async))
        if (a[0] == 'exc') != (b[0] == 'exc') or (a[0] == 'ok' and a != b):
            return out.fail('c13.forwarding', '%s with update_dict=False: call with %d positional and keywords %r gives %r, original %r' % (
                desc, k, sorted(kwargs), b, a))
    # ---- stacked wrapping: wraps() applied to the result of an earlier wraps() --------------------------
    w1 = _call(lambda: wraps(f)(passthrough(f)))
    if w1[0] == 'ok':
        for variant in ('wraps', 'update_wrapper'):
            r = _call(lambda: wraps(w1[1])(passthrough(w1[1]))) if variant == 'wraps' else _call(update_wrapper, passthrough(w1[1]), w1[1])
            if r[0] != 'ok':
                return out.fail('c13.wrap-raises', 'stacked %s around an already wrapped %s -> %r' % (variant, desc, r))
            w2 = r[1]
            if getattr(w2, '__wrapped__', None) is not w1[1]:
                return out.fail('c13.wrapped-attr', '%s: after wrapping twice, __wrapped__ of the outer function is %r, not the function it wraps' % (
                    desc, getattr(w2, '__wrapped__', None)))
            s2 = _call(inspect.signature, w2, follow_wrapped=False)
            if s2[0] != 'ok' or s2[1] != sig_f:
                return out.fail('c13.signature', '%s: own signature after wrapping twice is %s, original %s' % (desc, s2[1] if s2[0] == 'ok' else s2, sig_f))
            for attr in ('__name__', '__doc__', '__module__'):
                if getattr(w2, attr, 'MISSING') != getattr(f, attr):
                    return out.fail('c13.metadata', '%s: %s after wrapping twice is %r' % (desc, attr, getattr(w2, attr, 'MISSING')))
            chain = []
            cur = w2
            while hasattr(cur, '__wrapped__') and len(chain) < 5:
                cur = cur.__wrapped__
                chain.append(cur)
            if chain != [w1[1], f]:
                return out.fail('c13.wrapped-attr', '%s: the __wrapped__ chain of a doubly wrapped function is %r' % (desc, chain))
            # a few call shapes through both layers
            for k, sub in list(call_shapes(case, names_kw))[::7]:
                args = tuple(('P', i) for i in range(k))
                kwargs = {n: ('K', n) for n in sub}
                a = _call(lambda: drive(f(*args, **kwargs), is_async))
                b = _call(lambda: drive(w2(*args, **kwargs), is_async))
                if (a[0] == 'exc') != (b[0] == 'exc') or (a[0] == 'ok' and a != b) or (b[0] == 'exc' and b[1] != 'TypeError'):
                    return out.fail('c13.forwarding', '%s: through two wrapping layers a call with %d positional and keywords %r gives %r, original %r' % (
                        desc, k, sorted(kwargs), b, a))
    # ---- injected ---------------------------------------------------------
    orig = sig_summary(sig_f)
    inj_sets = [[n] for n in names_kw] + [list(c) for c in itertools.combinations(names_kw, 2)][:6] + [['zz_absent']]
    # absent and present names mixed, in both orders (with **kwargs the absent one is tolerated, the present one must still go)
    for n in names_kw[:2] + names_kw[-1:]:
        inj_sets += [['zz_absent', n], [n, 'zz_absent']]
    for inj in inj_sets:
        r = _call(update_wrapper, passthrough(f), f, injected=list(inj))
        absent = [n for n in inj if n not in names_kw]
        if absent and not case['varkw']:
            if r[0] != 'exc' or r[1] != 'MissingArgument':
                return out.fail('c13.injected-missing', '%s: injected=%r -> %r, expected MissingArgument' % (desc, inj, r))
            continue
        if r[0] != 'ok':
            return out.fail('c13.injected-raises', '%s: injected=%r -> %r' % (desc, inj, r))
        got = _call(lambda: sig_summary(inspect.signature(r[1], follow_wrapped=False)))
        want = [p for p in orig if p[0] not in inj]
        if got != ('ok', want):
            return out.fail('c13.injected-signature', '%s: injected=%r gives parameters %r, expected %r' % (desc, inj, got, want))
    # ---- injected and expected in ONE call -------------------------------------
    for n in names_kw[:3]:
        remaining = [p for p in orig if p[0] != n]
        rem_pos_defaults = any(p[1] in ('POSITIONAL_ONLY', 'POSITIONAL_OR_KEYWORD') and p[2] != 'EMPTY' for p in remaining)
        for exp_arg, new_name, new_default in (([('zz_new', 5)], 'zz_new', 5), (['zz_new'], 'zz_new', 'EMPTY'), ({n: 10}, n, 10)):
            if new_default == 'EMPTY' and rem_pos_defaults:
                continue        # a parameter without default cannot follow the remaining defaults (see the recorded finding)
            r = _call(update_wrapper, passthrough(f), f, injected=[n], expected=exp_arg)
            if r[0] != 'ok':
                return out.fail('c13.injected+expected', '%s: injected=[%r], expected=%r -> %r' % (desc, n, exp_arg, r))
            got = _call(lambda: sig_summary(inspect.signature(r[1], follow_wrapped=False)))
            if got[0] != 'ok':
                return out.fail('c13.injected+expected', '%s: injected=[%r], expected=%r: %r' % (desc, n, exp_arg, got))
            rest = [p for p in got[1] if p[0] != new_name]
            new = [p for p in got[1] if p[0] == new_name]
            if rest != remaining or len(new) != 1 or new[0][2] != new_default:
                return out.fail('c13.injected+expected', '%s: injected=[%r] together with expected=%r gives parameters %r; expected %r plus %s with default %r' % (
                    desc, n, exp_arg, got[1], remaining, new_name, new_default))
    # ---- expected ---------------------------------------------------------
    pos_defaults = any(d for _, d in case['pos'])
    for form, exp_arg, new_default in (
            ('bare', ['zz_new'], inspect.Parameter.empty), ('str', 'zz_new', inspect.Parameter.empty),
            ('pair', [('zz_new', 5)], 5), ('mapping', {'zz_new': None}, None), ('pair-mutable', [('zz_new', [1])], [1])):
        r = _call(update_wrapper, passthrough(f), f, expected=exp_arg)
        if r[0] != 'ok':
            if new_default is inspect.Parameter.empty and pos_defaults:
                continue        # unsatisfiable request: an exception is acceptable
            return out.fail('c13.expected-raises', '%s: expected=%r -> %r' % (desc, exp_arg, r))
        got = _call(lambda: sig_summary(inspect.signature(r[1], follow_wrapped=False)))
        if got[0] != 'ok':
            return out.fail('c13.expected-signature', '%s: expected=%r: %r' % (desc, exp_arg, got))
        rest = [p for p in got[1] if p[0] != 'zz_new']
        new = [p for p in got[1] if p[0] == 'zz_new']
        new_ok = len(new) == 1 and new[0][2] == ('EMPTY' if new_default is inspect.Parameter.empty else new_default)
        if rest != orig or not new_ok:
            if new_default is inspect.Parameter.empty and pos_defaults and len(new) == 1 and \
                    [(p[0], p[1], p[3]) for p in rest] == [(p[0], p[1], p[3]) for p in orig]:
                # the known shape: names/kinds intact, only defaults shifted towards the new parameter
                if is_known(KNOWN_EXPECTED):
                    if KNOWN_EXPECTED not in out.excluded:
                        out.excluded.append(KNOWN_EXPECTED)
                    continue
                return out.fail(KNOWN_EXPECTED, '%s: expected=%r gives %r: a default migrated (original %r)' % (desc, exp_arg, got[1], orig))
            return out.fail('c13.expected-signature', '%s: expected=%r gives parameters %r; original %r plus zz_new default %r' % (
                desc, exp_arg, got[1], orig, new_default))
    r = _call(update_wrapper, passthrough(f), f, expected=[names_kw[0]] if names_kw else ['zz_x'])
    if names_kw and (r[0] != 'exc' or r[1] != 'ExistingArgument'):
        return out.fail('c13.expected-existing', '%s: expected=[%r] (already a parameter) -> %r, expected ExistingArgument' % (desc, names_kw[0], r))
    # ---- the original changes after it has been wrapped; wrapping it again must reflect the function as it is now ----
    changed = []
    if f.__defaults__:
        f.__defaults__ = tuple(('M', i) for i in range(len(f.__defaults__)))
        changed.append('__defaults__')
    if f.__kwdefaults__:
        f.__kwdefaults__ = {k: ('MK', k) for k in f.__kwdefaults__}
        changed.append('__kwdefaults__')
    if f.__annotations__:
        f.__annotations__ = {k: 'Changed' for k in f.__annotations__}
        changed.append('__annotations__')
    f.__doc__ = 'documentation changed after the first wrapping'
    f.__name__ = 'renamed_target'
    sig_now = inspect.signature(f)
    for variant in ('wraps', 'update_wrapper'):
        r = _call(lambda: wraps(f)(passthrough(f))) if variant == 'wraps' else _call(update_wrapper, passthrough(f), f)
        if r[0] != 'ok':
            return out.fail('c13.wrap-raises', '%s of %s after its %s were reassigned -> %r' % (variant, desc, changed, r))
        w = r[1]
        sw = _call(lambda: sig_summary(inspect.signature(w, follow_wrapped=False)))
        if sw != ('ok', sig_summary(sig_now)):
            return out.fail('c13.signature.after-change', '%s: the function was wrapped, then its %s were reassigned, then it was wrapped again: the new '
                            'wrapper has parameters %r, the function now has %r' % (desc, changed, sw, sig_summary(sig_now)))
        for attr in ('__name__', '__doc__'):
            if getattr(w, attr, 'MISSING') != getattr(f, attr):
                return out.fail('c13.metadata.after-change', '%s: %s of a new wrapper is %r, the function now has %r' % (
                    desc, attr, getattr(w, attr, 'MISSING'), getattr(f, attr)))
        for k, sub in list(call_shapes(case, names_kw))[::5]:
            args = tuple(('P', i) for i in range(k))
            kwargs = {n: ('K', n) for n in sub}
            a = _call(lambda: drive(f(*args, **kwargs), is_async))
            b = _call(lambda: drive(w(*args, **kwargs), is_async))
            if (a[0] == 'exc') != (b[0] == 'exc') or (a[0] == 'ok' and a != b):
                return out.fail('c13.forwarding.after-change', '%s (defaults reassigned after an earlier wrapping): call with %d positional and keywords %r '
                                'gives %r through a new wrapper, the function itself %r' % (desc, k, sorted(kwargs), b, a))
    if changed:
        out.label('rewrapped_after_change')
    out.label('call_shapes:%d' % (1 << max(0, shapes.bit_length() - 1)))
    if is_async is True:
        out.label('async')
    elif is_async:
        out.label('generator_function:' + is_async)
    if case['annot']:
        out.label('annotated')
    if not accepted:
        out.label('no_call_accepted')
    return out


# ---------------------------------------------------------------------------
# random larger signatures

_ident = st.from_regex(r'[a-z_][a-z0-9_]{0,5}', fullmatch=True).filter(
    lambda s: not keyword.iskeyword(s) and s not in ('_call', '_func', '_d', '_rec', 'zz_new', 'zz_unknown', 'zz_absent', 'zz_x'))


def strat(tier):
    @st.composite
    def case(draw):
        names = draw(st.lists(_ident, min_size=0, max_size=12, unique=True))
        npos = draw(st.integers(0, min(6, len(names))))
        pos_names = names[:npos]
        rest = names[npos:]
        nkw = draw(st.integers(0, min(4, len(rest))))
        kw_names = rest[:nkw]
        rest = rest[nkw:]
        ndef = draw(st.integers(0, npos))
        varargs = rest.pop() if rest and draw(st.booleans()) else None
        varkw = rest.pop() if rest and draw(st.booleans()) else None
        return {
            'sub': 'sig',
            'pos': [[n, i >= npos - ndef] for i, n in enumerate(pos_names)],
            'varargs': varargs, 'varkw': varkw,
            'kwonly': [[n, draw(st.booleans())] for n in kw_names],
            'annot': draw(st.sampled_from([False, False, True, 'str'])),
            'async': draw(st.sampled_from([False, False, True])),
            'lambda': draw(st.sampled_from([False, False, True])),
            'attrs': draw(st.booleans()), 'doc': draw(st.booleans()), 'rich_defaults': draw(st.sampled_from([True, True, 'equalish'])),
            'gen': draw(st.sampled_from([None, None, None, None, 'gen', 'asyncgen'])),
        }
    return case()


def core_cases():
    for npos in range(4):
        for ndef in range(npos + 1):
            for varargs in (None, 'args'):
                for nkw in range(3):
                    for kwd in itertools.product((False, True), repeat=nkw):
                        for varkw in (None, 'kw'):
                            for annot in (False, True):
                                for is_async in (False, True):
                                    yield {
                                        'sub': 'sig',
                                        'pos': [['abc'[i], i >= npos - ndef] for i in range(npos)],
                                        'varargs': varargs, 'varkw': varkw,
                                        'kwonly': [['k%d' % (i + 1), kwd[i]] for i in range(nkw)],
                                        'annot': annot, 'async': is_async, 'lambda': False, 'attrs': False, 'doc': True,
                                    }


def _core_one(case):
    from vlib.main import safe_run
    out, herr = safe_run(SUBS['sig'], case)
    return case, out, herr


def extra(tier, seed, deadline):
    """Exhaustive enumeration of the finite core (1120 signatures, every call shape)."""
    import multiprocessing
    cases = list(core_cases())
    nt = set()
    failures = []
    labels = {}
    excluded = {}
    n = 0
    herrs = []
    with multiprocessing.get_context('fork').Pool(8) as pool:
        for case, out, herr in pool.imap_unordered(_core_one, cases, chunksize=20):
            if herr is not None:
                herrs.append(herr)
                continue
            n += 1
            if out.nontrivial:
                nt.add('core' + case_hash(case))
            for lab in out.labels:
                labels['core.' + lab] = labels.get('core.' + lab, 0) + 1
            for k in out.excluded:
                excluded[k] = excluded.get(k, 0) + 1
            if not out.ok and not is_known(out.kind) and len(failures) < 5:
                failures.append(('sig', out.kind, case, out.detail))
    if herrs:
        raise HarnessError('core enumeration: ' + herrs[0])
    return {'evaluations': n, 'nontrivial_hashes': nt, 'failures': failures, 'labels': labels, 'excluded': excluded,
            'samples': [{'sub': 'sig-core', 'case': cases[617]}],
            'info': {'finite_core': {'signatures': len(cases), 'exhaustive': len(cases) == n,
                                     'what': '<=3 positional x trailing defaults x *args x <=2 kw-only x defaults x **kw x annotations x async; all call shapes'}}}


SUBS = {
    'sig': Sub('sig', strat, run, quick=6000, thorough=160000, quick_shards=8),
}
