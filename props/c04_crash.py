"""C04 - atomic_save never exposes a partially written destination, at any crash point."""
import os
import shutil
import tempfile

from hypothesis import strategies as st

from vlib.core import Outcome, Sub, HarnessError
from vlib import fsio

from boltons import fileutils

LEVEL = 'fault_enumeration'
RULE = ('configurations: text/binary mode x write pattern (0-6 chunks with sizes from {0, 1, 7, 4096, 8192, 8193, 70000}) x buffering '
        '{-1, 0, 1024} x destination initially absent / present (shorter, longer, equal length, empty) x overwrite x relative/absolute path '
        'x part_file name x API form (context manager / explicit setup+__exit__). For each configuration the save is run once in a forked '
        'child under an interposition layer (os.* and file-object calls on the sandbox directory are events) to record its event trace; then '
        'EVERY crash point - immediately before and after every event - is enumerated: one forked child per point re-runs the save and is '
        'killed there with os._exit after a power-loss emulation (data never fsync\'ed is discarded, directory operations kept in order). '
        'Oracle after each crash: destination absent (only if it was absent) or exactly the old or exactly the complete new content. On the '
        'trace: exactly one publication (rename/replace/link onto the destination) from the same directory, after the last write, a flush '
        'and an fsync of the part file. non-trivial = a crash point at or after the first byte handed to the part file. '
        'distinct = distinct (configuration, crash point) pairs.')
ASSUMPTIONS = [
    'crash points are exhaustive for the recorded event trace of each configuration; crashes inside a system call and kernel/file-system bugs are out of reach',
    'rename/link/unlink are atomic and durable in program order (POSIX); file data is durable only up to the last fsync/fdatasync of that file',
    'Linux; text mode encodes as UTF-8 (PYTHONUTF8=1); symlinked destinations not generated',
]

SIZES = [0, 1, 7, 4096, 8192, 8193, 70000]


def _chunk(i, size, text):
    if size == 0:
        return '' if text else b''
    unit = ('N%d|' % i)
    s = (unit * (size // len(unit) + 1))[:size]
    return s if text else s.encode('ascii')


def _head(first_chunk, text, as_bytes=False):
    h = 'H' * len(first_chunk)
    return h.encode('ascii') if (as_bytes or not text) else h


def strat(tier):
    return st.fixed_dictionaries({
        'sub': st.just('crash'),
        'text_mode': st.booleans(),
        'chunks': st.lists(st.integers(0, len(SIZES) - 1), max_size=6 if tier != 'quick' else 4),
        'buffering': st.sampled_from([-1, -1, 0, 1024]),
        'dest_initial': st.sampled_from([None, None, 'shorter', 'longer', 'equal', 'empty']),
        'overwrite': st.booleans(),
        'relative': st.booleans(),
        'part_file': st.sampled_from([None, None, 'custom.tmp']),
        # 'reuse_aborted': the AtomicSaver object was used before, for an attempt whose body raised (part file removed, destination
        # untouched); the save under test is the retry through the same object
        'api': st.sampled_from(['with', 'with', 'with', 'explicit', 'explicit', 'reuse_aborted']),
        # a part file left by an earlier, crashed attempt (longer / shorter than the new content); taken over with overwrite_part=True
        # ('link_of_dest': what a crash between link() and unlink() of an overwrite=False save leaves behind - the part file is a
        #  second name of the destination's inode)
        'stale_part': st.sampled_from([None, None, None, 'longer', 'shorter', 'link_of_dest']),
        # length of the destination's file name: NAME_MAX is 255, the default part file appends 5 characters ('.part')
        'name_len': st.sampled_from([None, None, None, None, None, None, 250, 251, 255]),
        # the body closes the file object itself before the with-block ends (a nested `with f:`, a wrapper that closes its stream)
        'body_close': st.sampled_from([False, False, False, False, False, True]),
        # the existing destination has a second hard link
        'dest_hardlink': st.sampled_from([False, False, False, True]),
        # the existing destination is a symbolic link to a file holding the old content
        'dest_symlink': st.sampled_from([False, False, False, False, True]),
        # after its writes the body seeks back to the start and overwrites the first chunk (placeholder header, payload, real header)
        'rewrite_head': st.sampled_from([False, False, False, False, True]),
    })


def _dest_name(case):
    n = case.get('name_len')
    if not n:
        return 'dest.bin'
    return 'd' * (n - 4) + '.bin'


def _config(case):
    text = bool(case['text_mode'])
    chunks = [_chunk(i, SIZES[c % len(SIZES)], text) for i, c in enumerate(case['chunks'])]
    new = ''.join(chunks).encode('utf-8') if text else b''.join(chunks)
    if case.get('rewrite_head') and chunks and len(chunks[0]):
        new = _head(chunks[0], text, True) + new[len(chunks[0]):]
    di = case['dest_initial']
    overwrite = bool(case['overwrite'])
    if not overwrite:
        di = None       # overwrite=False is only meaningful here with an absent destination (refusal is C05)
    if di is None:
        old = None
    elif di == 'empty':
        old = b''
    elif di == 'shorter':
        old = (b'OLD-' * (max(1, len(new) // 8)))[:max(1, len(new) // 2)] or b'O'
    elif di == 'longer':
        old = b'OLD-' * (len(new) // 4 + 3)
    else:
        old = (b'OLD-' * (len(new) // 4 + 1))[:len(new)]
    buffering = case['buffering']
    if text and buffering == 0:
        buffering = -1
    return text, chunks, new, old, overwrite, buffering


def _stale(case, new):
    sp = case.get('stale_part')
    if not sp:
        return None
    if sp == 'link_of_dest':
        return 'LINK-OF-DEST'
    return b'STALE-' * (len(new) // 6 + 50) if sp == 'longer' else b'S'


def _prepare(sandbox, old, stale=None, part_name='dest.bin.part', dest_name='dest.bin', hardlink=False, symlink=False):
    for name in os.listdir(sandbox):
        p = os.path.join(sandbox, name)
        if os.path.isdir(p):
            shutil.rmtree(p)
        else:
            os.unlink(p)
    if old is not None:
        target = 'symlink-target-of-dest' if symlink else dest_name
        with open(os.path.join(sandbox, target), 'wb') as f:
            f.write(old)
            f.flush()
            os.fsync(f.fileno())
        if symlink:
            os.symlink(target, os.path.join(sandbox, dest_name))
        if hardlink and not symlink:
            os.link(os.path.join(sandbox, dest_name), os.path.join(sandbox, 'second-link-to-dest'))
    if stale == 'LINK-OF-DEST':
        if old is not None and not symlink and len(part_name) <= 255:
            os.link(os.path.join(sandbox, dest_name), os.path.join(sandbox, part_name))
    elif stale is not None and len(part_name) <= 255:
        with open(os.path.join(sandbox, part_name), 'wb') as f:
            f.write(stale)
            f.flush()
            os.fsync(f.fileno())


class _Aborted(Exception):
    pass


def _body(case, chunks, overwrite, buffering, sandbox):
    def body(ip):
        os.chdir(sandbox)
        import errno
        dest = _dest_name(case) if case['relative'] else os.path.join(sandbox, _dest_name(case))
        kw = {'text_mode': bool(case['text_mode']), 'overwrite': overwrite, 'buffering': buffering}
        if case['part_file']:
            kw['part_file'] = case['part_file']
        if case.get('stale_part'):
            kw['overwrite_part'] = True
        try:
            if case['api'] in ('with', 'reuse_aborted'):
                saver = fileutils.atomic_save(dest, **kw)
                if case['api'] == 'reuse_aborted':
                    # history, not under test: runs outside the interposition layer and leaves the directory as it was prepared
                    # (a stale part file taken over with overwrite_part=True is gone afterwards, like after any failed attempt)
                    ip.active = False
                    try:
                        with saver as f0:
                            f0.write('aborted attempt' if case['text_mode'] else b'aborted attempt')
                            raise _Aborted()
                    except _Aborted:
                        pass
                    finally:
                        ip.active = True
                with saver as f:
                    for c in chunks:
                        f.write(c)
                    if case.get('rewrite_head') and chunks and len(chunks[0]):
                        f.seek(0)
                        f.write(_head(chunks[0], bool(case['text_mode'])))
                    if case.get('body_close'):
                        f.close()
            else:
                s = fileutils.AtomicSaver(dest, **kw)
                s.setup()
                f = s.part_file
                for c in chunks:
                    f.write(c)
                if case.get('rewrite_head') and chunks and len(chunks[0]):
                    f.seek(0)
                    f.write(_head(chunks[0], bool(case['text_mode'])))
                if case.get('body_close'):
                    f.close()
                s.__exit__(None, None, None)
        except OSError as e:
            if e.errno == errno.ENAMETOOLONG:
                return {'done': False, 'refused': 'ENAMETOOLONG'}
            raise
        except ValueError as e:
            if case.get('body_close') and 'closed' in str(e):
                return {'done': False, 'refused': 'closed file'}      # the saver may refuse to finish a file it can no longer flush
            raise
        return {'done': True}
    return body


def _dest_state(sandbox, dest_name='dest.bin'):
    p = os.path.join(sandbox, dest_name)
    if not os.path.lexists(p):
        return None
    with open(p, 'rb') as f:
        return f.read()


def _short(b):
    if b is None:
        return 'absent'
    return '%d bytes %r%s' % (len(b), b[:24], '...' if len(b) > 24 else '')


def run(case):
    out = Outcome()
    text, chunks, new, old, overwrite, buffering = _config(case)
    sandbox = tempfile.mkdtemp(prefix='c04_')
    try:
        sandbox = os.path.realpath(sandbox)
        body = _body(case, chunks, overwrite, buffering, sandbox)
        cfg = 'atomic_save(text_mode=%r, overwrite=%r, buffering=%r, part_file=%r, %s path, %s API) writing chunks %r over a destination that is %s' % (
            text, overwrite, buffering, case['part_file'], 'relative' if case['relative'] else 'absolute', case['api'],
            [len(c) for c in chunks], _short(old))
        # ---- recording run ---------------------------------------------
        stale = _stale(case, new)
        DEST = _dest_name(case)
        part_name = case['part_file'] or DEST + '.part'
        too_long = len(part_name) > 255     # the part file cannot be created: the save must be refused with ENAMETOOLONG
        if too_long:
            stale = None
            cfg += ' [destination file name of %d characters: the part file name exceeds NAME_MAX]' % len(DEST)
        elif case.get('name_len'):
            cfg += ' [destination file name of %d characters]' % len(DEST)
        symlink = bool(case.get('dest_symlink')) and old is not None and overwrite
        if symlink:
            cfg += ' [the destination is a symbolic link to a file with the old content]'
        hardlink = bool(case.get('dest_hardlink')) and old is not None and not symlink
        if hardlink:
            cfg += ' [the destination has a second hard link]'
        if case.get('body_close'):
            cfg += ' [the body closes the file object before leaving]'
        _prepare(sandbox, old, stale, part_name, DEST, hardlink, symlink)
        code, res = fsio.run_in_child(sandbox, body)
        if res is None or code != 0:
            raise HarnessError('recording child failed: exit %r, result %r' % (code, res))
        if res.get('harness_exception'):
            return out.fail('c04.save-raises', '%s raised %s' % (cfg, res['harness_exception']))
        events = res['events']
        final = _dest_state(sandbox, DEST)
        refused = not res.get('done')
        if refused and not (too_long if res.get('refused') == 'ENAMETOOLONG' else case.get('body_close')):
            return out.fail('c04.save-raises', '%s raised (%s) although nothing stands in the way of the save' % (cfg, res.get('refused')))
        if refused:
            # nothing may have happened
            if final != old:
                return out.fail('c04.partial-destination', '%s: the save was refused (%s) but the destination is %s, before %s' % (
                    cfg, res.get('refused'), _short(final), _short(old)))
            new = old if old is not None else new
        elif final != new:
            return out.fail('c04.normal-exit-content', '%s: after a normal exit the destination is %s, expected the new content %s' % (
                cfg, _short(final), _short(new)))
        left = sorted(os.listdir(sandbox))
        if [x for x in left if x not in ('second-link-to-dest', 'symlink-target-of-dest')] != ([DEST] if final is not None else []):
            return out.fail('c04.normal-exit-leftovers', '%s: after a normal exit the directory holds %r' % (cfg, [x[:20] for x in left]))
        # ---- trace oracle ----------------------------------------------
        # (VERIF_C04_NO_TRACE=1 is a self-test switch: it disables the static trace oracle so that the
        #  crash enumeration below can be shown to catch the same defects on its own)
        trace_oracle = os.environ.get('VERIF_C04_NO_TRACE') != '1' and not refused
        pubs = [i for i, e in enumerate(events) if e['kind'] in ('os.rename', 'os.replace', 'os.link') and e.get('dst') == DEST and not e.get('error')]
        trace = [(e['kind'], e.get('path'), e.get('dst')) for e in events]
        if len(pubs) != 1 and trace_oracle:
            return out.fail('c04.publication-not-unique', '%s: %d publication events onto the destination; trace %r' % (cfg, len(pubs), trace))
        pub = pubs[0] if pubs else len(events)
        src = events[pub]['path'] if pubs else DEST + '.part'
        if pubs and trace_oracle and (not events[pub].get('src_dir_same', True) or '/' in src):
            return out.fail('c04.part-file-other-directory', '%s: the published file %r is not in the destination directory' % (cfg, src))
        direct = [i for i, e in enumerate(events) if e.get('path') == DEST and e['kind'] in ('open', 'os.open', 'os.truncate', 'f.write')
                  and (e.get('trunc') or e['kind'] in ('f.write', 'os.truncate') or (e['kind'] == 'os.open' and (e.get('flags', 0) & (os.O_WRONLY | os.O_RDWR))))]
        if direct and trace_oracle:
            return out.fail('c04.destination-written-in-place', '%s: the destination itself is opened for writing/truncated (event %r)' % (cfg, events[direct[0]]))
        unl = [i for i, e in enumerate(events) if e['kind'] in ('os.unlink', 'os.remove') and e.get('path') == DEST and i < pub]
        if unl and old is not None and trace_oracle:
            return out.fail('c04.destination-unlinked-first', '%s: the destination is removed before the new file is published; trace %r' % (cfg, trace))
        writes = [i for i, e in enumerate(events) if e['kind'] == 'f.write' and e.get('path') == src and e.get('n')]
        if writes and trace_oracle:
            last_w = writes[-1]
            if last_w > pub:
                return out.fail('c04.write-after-publication', '%s: data is written after the publication; trace %r' % (cfg, trace))
            flushes = [i for i, e in enumerate(events) if e['kind'] in ('f.flush', 'f.close') and e.get('path') == src and last_w < i < pub]
            if not flushes:
                return out.fail('c04.no-flush-before-publication', '%s: no flush of the part file between the last write and the publication; trace %r' % (cfg, trace))
            syncs = [i for i, e in enumerate(events) if e['kind'] in ('os.fsync', 'os.fdatasync') and e.get('path') == src and flushes[0] < i < pub]
            if not syncs:
                return out.fail('c04.no-fsync-before-publication', '%s: no fsync of the part file between its flush and the publication; trace %r' % (cfg, trace))
        # ---- crash enumeration -----------------------------------------
        first_data = writes[0] if writes else len(events)
        n_points = 0
        n_nontrivial = 0
        for idx in range(len(events)):
            for when in ('before', 'after'):
                _prepare(sandbox, old, stale, part_name, DEST, hardlink, symlink)
                code, r2 = fsio.run_in_child(sandbox, body, crash_at=(idx, when))
                n_points += 1
                if code != 137:
                    if r2 and r2.get('harness_exception'):
                        return out.fail('c04.save-raises', '%s raised %s in a repeat run' % (cfg, r2['harness_exception']))
                    raise HarnessError('crash point (%d, %s) not reached: exit %r (events %d)' % (idx, when, code, len(events)))
                state = _dest_state(sandbox, DEST)
                ok = state == new or (old is not None and state == old) or (old is None and state is None)
                if idx >= first_data:
                    n_nontrivial += 1
                if not ok:
                    ev = events[idx]
                    kind = 'c04.partial-destination'
                    return out.fail(kind, '%s: process killed %s event #%d %s(%s): destination is %s - neither the previous state (%s) nor the '
                                    'complete new content (%s); trace %r' % (cfg, when, idx, ev['kind'], ev.get('path'), _short(state), _short(old), _short(new), trace))
        out.nontrivial = n_nontrivial > 0
        out.units = n_points + 1
        out.label('crash_points:%d' % (8 * (n_points // 8)))
        if old is not None:
            out.label('destination_present')
        if stale is not None:
            out.label('stale_part_file_taken_over')
        if hardlink:
            out.label('destination_has_second_hard_link')
        if symlink:
            out.label('destination_is_symlink')
        if case.get('rewrite_head') and chunks and len(chunks[0]):
            out.label('body_rewrites_head')
        if case.get('body_close'):
            out.label('body_closes_file:%s' % ('refused' if refused else 'completed'))
        if case.get('name_len'):
            out.label('name_len:%d%s' % (case['name_len'], ':refused' if refused else ''))
        if case['api'] == 'reuse_aborted':
            out.label('saver_object_reused_after_an_aborted_attempt')
        if text:
            out.label('text_mode')
        if any(len(c) >= 8192 for c in chunks):
            out.label('write_larger_than_buffer')
        out.label('events:' + '>'.join(k for k, _, _ in trace)[:120])
        CRASH_COUNTS['points'] = CRASH_COUNTS.get('points', 0) + n_points
        return out
    finally:
        shutil.rmtree(sandbox, ignore_errors=True)


CRASH_COUNTS = {}

SUBS = {
    'crash': Sub('crash', strat, run, quick=1600, thorough=48000, quick_shards=16),
}
