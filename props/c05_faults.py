"""C05 - a failed or refused atomic_save leaves the destination intact and cleans up."""
import errno
import os
import shutil
import stat
import tempfile

from hypothesis import strategies as st

from vlib.core import Outcome, Sub, HarnessError
from vlib import fsio

from boltons import fileutils

LEVEL = 'fault_enumeration'
RULE = ('configurations: overwrite x overwrite_part x rm_part_on_exc x text_mode x file_perms {None, 600, 640, 444, 000, 755} x umask '
        '{000, 002, 022, 027, 077} x destination absent/present (with a mode from the same list) x part file absent/present (foreign content) '
        'x body {writes and returns, raises after k writes (an Exception, a falsy exception instance, KeyboardInterrupt, GeneratorExit, SystemExit), '
        'creates the destination mid-way (race for overwrite=False), writes nothing} x API {with atomic_save, explicit setup/__exit__, the same '
        'AtomicSaver object re-used after an earlier completed save made against a different destination state}. For '
        'each configuration the save runs once in a forked child under the interposition layer to record its events; then EVERY single fault '
        '(an OSError injected instead of performing the call) at every faultable event - creating the part file, chmod, write, flush, fsync, '
        'close, link/rename - is enumerated, and for half of the configurations every PAIR of faults (the second may also hit the cleanup '
        'unlink). Oracle: not completed => an exception reaches the caller, destination bytes and st_mode unchanged, no part file left when '
        'rm_part_on_exc (a foreign pre-existing part file untouched unless overwrite_part), an immediate fault-free retry succeeds; completed '
        '=> new content, requested / replaced file\'s / umask-default permissions, no part file. non-trivial = runs where a fault or a '
        'refusal actually triggered. distinct = distinct (configuration, fault plan) pairs.')
ASSUMPTIONS = [
    'faults replace the call (nothing is performed), except close which closes and then raises; partial effects inside the kernel are out of reach',
    'the process runs as root: permission bits are compared, not enforced',
    'the racing body (destination appears mid-way) is only generated with overwrite=False, where the statement defines the outcome',
]
PERMS = [None, 0o600, 0o640, 0o444, 0o000, 0o755, 0o4755, 0o1644, 0o2750]      # incl. set-uid, sticky, set-gid modes
if os.geteuid() != 0:
    # an unprivileged process loses set-uid/set-gid bits of a file it writes to: only compare them when running as root
    PERMS = [m if m is None else (m & 0o777) for m in PERMS]
UMASKS = [0o000, 0o002, 0o022, 0o027, 0o077]
ERRNOS = [errno.ENOSPC, errno.EIO, errno.EPERM, errno.EACCES, errno.EEXIST, errno.EDQUOT]
LISTED = ('os.open', 'os.chmod', 'os.fchmod', 'f.write', 'f.flush', 'os.fsync', 'os.fdatasync', 'f.close', 'os.link', 'os.rename', 'os.replace')
CLEANUP = ('os.unlink', 'os.remove')


def strat(tier):
    return st.fixed_dictionaries({
        'sub': st.just('fault'),
        'overwrite': st.booleans(), 'overwrite_part': st.booleans(), 'rm_part_on_exc': st.sampled_from([True, True, True, False]),
        'text_mode': st.booleans(),
        'file_perms': st.sampled_from([0, 0, 0, 0] + list(range(1, len(PERMS)))),      # a third without explicit permissions
        'umask': st.integers(0, len(UMASKS) - 1),
        'dest': st.one_of(st.none(), st.integers(1, len(PERMS) - 1)),      # None absent, else index of its mode
        'part': st.sampled_from([False, False, True]),
        'body': st.sampled_from(['normal', 'normal', 'normal', 'raise0', 'raise1', 'raise2', 'race', 'race_late', 'nothing', 'closeraise', 'closereturn']),
        # the bytes written are identical to what the destination (or the racing writer's file) already holds
        'same': st.sampled_from([False, False, False, True]),
        'errno': st.integers(0, len(ERRNOS) - 1),
        'pairs': st.booleans(),
        'api': st.sampled_from(['with', 'with', 'explicit', 'reuse']),
        # what a raising body raises: an ordinary exception, one whose instance is falsy, or BaseException kinds that pass through with-blocks
        'exc': st.sampled_from(['plain', 'plain', 'falsy', 'keyboard', 'genexit', 'sysexit']),
    })


NEW = b'NEW-CONTENT-' * 400
OLD = b'old content of the destination\n'
FOREIGN = b'somebody else\'s part file' * 400        # longer than the new content: a reused part file would show
RACE = b'created by a racing writer'


def _old(case):
    return NEW if case.get('same') else OLD


def _race(case):
    return NEW if case.get('same') else RACE


def _prepare(sandbox, case):
    for name in os.listdir(sandbox):
        os.unlink(os.path.join(sandbox, name))
    if case['dest'] is not None:
        p = os.path.join(sandbox, 'dest.txt')
        with open(p, 'wb') as f:
            f.write(_old(case))
        os.chmod(p, PERMS[case['dest']])
    if case['part']:
        p = os.path.join(sandbox, 'dest.txt.part')
        with open(p, 'wb') as f:
            f.write(FOREIGN)
        os.chmod(p, 0o600)


def _kwargs(case):
    kw = {'overwrite': bool(case['overwrite']), 'overwrite_part': bool(case['overwrite_part']),
          'rm_part_on_exc': bool(case['rm_part_on_exc']), 'text_mode': bool(case['text_mode'])}
    if PERMS[case['file_perms']] is not None:
        kw['file_perms'] = PERMS[case['file_perms']]
    return kw


class BodyError(Exception):
    pass


class FalsyBodyError(BodyError):
    """an exception instance that is falsy (like an empty ExceptionGroup-style container or an error with __len__ 0)"""
    def __bool__(self):
        return False

    def __len__(self):
        return 0


EXC = {'plain': BodyError, 'falsy': FalsyBodyError, 'keyboard': KeyboardInterrupt, 'genexit': GeneratorExit, 'sysexit': SystemExit}


def _body(case, sandbox, body_kind, api):
    def body(ip):
        os.chdir(sandbox)
        dest = os.path.join(sandbox, 'dest.txt')
        chunks = [NEW[:1000], NEW[1000:3000], NEW[3000:]]
        if case['text_mode']:
            chunks = [c.decode('ascii') for c in chunks]
        res = {'outcome': 'returned'}

        def racer():
            fd = os.open(dest, os.O_WRONLY | os.O_CREAT | os.O_EXCL, 0o644)
            os.write(fd, _race(case))
            os.close(fd)
            os.chmod(dest, 0o644)
        if body_kind == 'race_late':
            # the competitor's file appears at the last possible moment: after every check the saver makes on its way out, straight
            # before the call that moves the part file into place
            ip.before_publish = ('dest.txt', racer)

        def work(f):
            if body_kind == 'nothing':
                return
            for i, c in enumerate(chunks):
                if body_kind == 'raise%d' % i:
                    raise EXC[case.get('exc', 'plain')]('body failed after %d writes' % i)
                f.write(c)
                if body_kind == 'race' and i == 0:
                    ip.active = False
                    fd = os.open(dest, os.O_WRONLY | os.O_CREAT | os.O_EXCL, 0o644)
                    os.write(fd, _race(case))
                    os.close(fd)
                    os.chmod(dest, 0o644)
                    ip.active = True
            if body_kind in ('closeraise', 'closereturn'):
                # the body closes the file object it was given (nested `with f:`, a wrapper closing its stream) ...
                f.close()
                if body_kind == 'closeraise':
                    raise EXC[case.get('exc', 'plain')]('body failed after closing the file')
        try:
            if api == 'with':
                with fileutils.atomic_save(dest, **_kwargs(case)) as f:
                    work(f)
            elif api == 'reuse':
                # the same AtomicSaver object used for a second save: an earlier, completed save through it (made while the
                # destination looked different) must not influence this one.  The first use is not under test: it runs
                # outside the interposition layer and the initial state is restored afterwards.
                s = fileutils.AtomicSaver(dest, **_kwargs(case))
                ip.active = False
                try:
                    if os.path.lexists(dest):
                        if case['overwrite']:
                            os.chmod(dest, 0o604)
                        else:
                            os.unlink(dest)
                    try:
                        with s as f0:
                            f0.write('first use' if case['text_mode'] else b'first use')
                    except Exception:      # noqa
                        pass
                    _prepare(sandbox, case)
                finally:
                    ip.active = True
                with s as f:
                    work(f)
            else:
                s = fileutils.AtomicSaver(dest, **_kwargs(case))
                s.setup()
                try:
                    work(s.part_file)
                except BaseException as e:   # noqa
                    import sys
                    if not s.__exit__(*sys.exc_info()):
                        raise
                else:
                    s.__exit__(None, None, None)
        except (BodyError, KeyboardInterrupt, GeneratorExit, SystemExit) as e:
            res = {'outcome': 'raised', 'exc': type(e).__name__, 'msg': str(e)}
        except OSError as e:
            res = {'outcome': 'raised', 'exc': 'OSError', 'errno': e.errno, 'msg': str(e)[:200]}
        except Exception as e:      # noqa
            res = {'outcome': 'raised', 'exc': type(e).__name__, 'msg': str(e)[:200]}
        return res
    return body


def _state(sandbox):
    st_ = {}
    for name in sorted(os.listdir(sandbox)):
        p = os.path.join(sandbox, name)
        with open(p, 'rb') as f:
            data = f.read()
        st_[name] = (data, stat.S_IMODE(os.lstat(p).st_mode))
    return st_


def _sh(state):
    return {k: ('%d bytes %r' % (len(v[0]), v[0][:16]), oct(v[1])) for k, v in state.items()}


def evaluate(case, initial, res, events, fired, state, out, cfg, sandbox):
    """oracle for one run.  Returns False after recording a failure."""
    body_kind = case['body']
    body_raises = body_kind.startswith('raise') or body_kind == 'closeraise'
    dest0 = initial.get('dest.txt')
    part0 = initial.get('dest.txt.part')
    umask = UMASKS[case['umask']]
    listed_fault = any(events[i]['kind'] in LISTED for i in fired)
    cleanup_fault = any(events[i]['kind'] in CLEANUP for i in fired)
    refusal = (not case['overwrite']) and (dest0 is not None or body_kind in ('race', 'race_late'))
    part_blocks = part0 is not None and not case['overwrite_part']
    completed_expected = not (body_raises or listed_fault or refusal or part_blocks)
    if body_kind == 'closereturn' and res['outcome'] != 'returned':
        # a body that closed the file: the saver may finish the save properly or refuse with an exception - not drop it silently
        completed_expected = False
    fired_desc = [(i, events[i]['kind'], events[i].get('path'), errno.errorcode.get(events[i].get('fault'), '?')) for i in fired]
    where = '%s; injected faults %r; caller saw %r; directory afterwards %r (before: %r)' % (cfg, fired_desc, res, _sh(state), _sh(initial))
    dest1 = state.get('dest.txt')
    part1 = state.get('dest.txt.part')
    if completed_expected:
        if cleanup_fault:
            return True         # a failing cleanup of the part file after publication is outside the listed steps
        if res['outcome'] != 'returned':
            out.fail('c05.spurious-failure', 'a save that should complete raised: %s' % where)
            return False
        want_mode = PERMS[case['file_perms']]
        if want_mode is None:
            want_mode = dest0[1] if dest0 is not None else (0o666 & ~umask)
        want = b'' if body_kind == 'nothing' else NEW
        if dest1 is None or dest1[0] != want:
            out.fail('c05.completed-content', 'completed save did not leave the new content: %s' % where)
            return False
        if dest1[1] != want_mode:
            out.fail('c05.completed-permissions', 'completed save left mode %s, expected %s (file_perms=%r, replaced file %s, umask %s): %s' % (
                oct(dest1[1]), oct(want_mode), PERMS[case['file_perms']], oct(dest0[1]) if dest0 else None, oct(umask), where))
            return False
        if part1 is not None:
            out.fail('c05.completed-part-left', 'completed save left a part file: %s' % where)
            return False
        return True
    # ---- not completed -------------------------------------------------
    if res['outcome'] == 'returned':
        out.fail('c05.silent-failure', 'the save did not complete but the caller saw no exception: %s' % where)
        return False
    exp_dest = dest0
    if body_kind == 'race' and any(e['kind'] == 'f.write' and not e.get('fault') for e in events):
        # the racing writer created the destination after the first successful write
        first_w = next(i for i, e in enumerate(events) if e['kind'] == 'f.write')
        if not any(i <= first_w for i in fired if events[i]['kind'] in LISTED):
            exp_dest = (_race(case), 0o644)
    if body_kind == 'race_late' and res.get('publish_hook_fired'):
        exp_dest = (_race(case), 0o644)
    if dest1 != exp_dest:
        out.fail('c05.destination-changed', 'destination changed by a save that did not complete (expected %s): %s' % (
            None if exp_dest is None else ('%d bytes' % len(exp_dest[0]), oct(exp_dest[1])), where))
        return False
    if part_blocks:
        if part1 != part0:
            out.fail('c05.foreign-part-touched', 'a pre-existing part file was reused/overwritten/removed although overwrite_part is off: %s' % where)
            return False
        return True
    created = any(e['kind'] == 'os.open' and e.get('path') == 'dest.txt.part' and not e.get('fault') and not e.get('error') for e in events)
    if not created:
        # the attempt never made a part file of its own: a pre-existing one is either untouched or (overwrite_part) removed
        if part1 is not None and part1 != part0:
            out.fail('c05.foreign-part-touched', 'pre-existing part file modified by an attempt that never created its own: %s' % where)
            return False
        if part1 is None and part0 is not None and not case['overwrite_part']:
            out.fail('c05.foreign-part-touched', 'pre-existing part file removed although overwrite_part is off: %s' % where)
            return False
        return True
    if case['rm_part_on_exc'] and not cleanup_fault:
        if part1 is not None:
            out.fail('c05.part-left', 'part file left behind after a failed save (rm_part_on_exc on): %s' % where)
            return False
        extra = [k for k in state if k not in ('dest.txt',)]
        if extra:
            out.fail('c05.part-left', 'files left behind after a failed save: %r; %s' % (extra, where))
            return False
        # an immediate fault-free retry must succeed (unless it is refused for overwrite=False)
        retry_case = dict(case, body='normal')
        code, r2 = fsio.run_in_child(sandbox, _body(retry_case, sandbox, 'normal', 'with' if case['api'] == 'reuse' else case['api']), umask=umask)
        if r2 is None:
            raise HarnessError('retry child failed')
        refused = (not case['overwrite']) and dest1 is not None
        if not refused and r2.get('outcome') != 'returned':
            out.fail('c05.retry-fails', 'the retry after a cleaned-up failure did not succeed (%r): %s' % (r2, where))
            return False
        if not refused and _state(sandbox).get('dest.txt', (None,))[0] != NEW:
            out.fail('c05.retry-fails', 'the retry did not leave the new content: %s' % where)
            return False
    return True


def run(case):
    out = Outcome()
    if case['body'] in ('race', 'race_late') and (case['overwrite'] or case['dest'] is not None):
        case = dict(case, body='normal')        # the race is only defined for overwrite=False with an absent destination
    sandbox = os.path.realpath(tempfile.mkdtemp(prefix='c05_'))
    try:
        umask = UMASKS[case['umask']]
        body = _body(case, sandbox, case['body'], case['api'])
        cfg = 'atomic_save(%s) [%s API], umask %s, destination %s, part file %s, body %s' % (
            ', '.join('%s=%s' % (k, oct(v) if k == 'file_perms' else v) for k, v in sorted(_kwargs(case).items())), case['api'], oct(umask),
            'absent' if case['dest'] is None else 'present mode %s' % oct(PERMS[case['dest']]), 'present' if case['part'] else 'absent',
            case['body'] + ('(%s)' % EXC[case.get('exc', 'plain')].__name__ if 'raise' in case['body'] else '') +
            (', new content identical to the old' if case.get('same') else ''))
        _prepare(sandbox, case)
        initial = _state(sandbox)
        code, res = fsio.run_in_child(sandbox, body, umask=umask)
        if res is None or code != 0 or res.get('harness_exception'):
            raise HarnessError('recording child failed: exit %r, %r' % (code, res))
        events = res['events']
        runs = 1
        triggered = 0
        if not evaluate(case, initial, res, events, [], _state(sandbox), out, cfg, sandbox):
            return out
        if (not case['overwrite'] and (case['dest'] is not None or case['body'] in ('race', 'race_late'))) or case['body'].startswith('raise') or case['body'].startswith('close') or \
                (case['part'] and not case['overwrite_part']):
            triggered += 1
        e1 = ERRNOS[case['errno']]
        e2 = ERRNOS[(case['errno'] + 2) % len(ERRNOS)]
        single = [i for i, e in enumerate(events) if e['kind'] in LISTED]
        for i in single:
            _prepare(sandbox, case)
            code, r1 = fsio.run_in_child(sandbox, body, faults={i: e1}, umask=umask)
            if r1 is None or code != 0 or r1.get('harness_exception'):
                raise HarnessError('fault child failed: exit %r, %r' % (code, r1))
            runs += 1
            if i in r1['fired_faults']:
                triggered += 1
            st1 = _state(sandbox)
            if not evaluate(case, initial, r1, r1['events'], r1['fired_faults'], st1, out, cfg, sandbox):
                return out
            if case['pairs']:
                ev1 = r1['events']
                for j in range(i + 1, len(ev1)):
                    if ev1[j]['kind'] not in LISTED + CLEANUP:
                        continue
                    _prepare(sandbox, case)
                    code, r2 = fsio.run_in_child(sandbox, body, faults={i: e1, j: e2}, umask=umask)
                    if r2 is None or code != 0 or r2.get('harness_exception'):
                        raise HarnessError('fault-pair child failed: exit %r, %r' % (code, r2))
                    runs += 1
                    if j in r2['fired_faults']:
                        triggered += 1
                    if not evaluate(case, initial, r2, r2['events'], r2['fired_faults'], _state(sandbox), out, cfg, sandbox):
                        out.kind += '.pair'
                        return out
        out.units = runs
        out.nontrivial = triggered > 0
        out.label('fault_runs:%d' % (4 * (runs // 4)))
        if case['pairs']:
            out.label('pairs_enumerated')
        if not case['overwrite'] and (case['dest'] is not None or case['body'] in ('race', 'race_late')):
            out.label('refusal')
        if case['body'].startswith('raise'):
            out.label('body_raises')
            out.label('body_raises:' + case.get('exc', 'plain'))
        if case['body'] == 'race_late':
            out.label('destination_appears_straight_before_publication')
        if case['api'] == 'reuse':
            out.label('saver_object_reused')
        if case['body'].startswith('close'):
            out.label('body_closes_file')
        if case.get('same') and case['dest'] is not None:
            out.label('new_content_equals_old')
        return out
    finally:
        shutil.rmtree(sandbox, ignore_errors=True)


SUBS = {
    'fault': Sub('fault', strat, run, quick=900, thorough=32000, quick_shards=16),
}
