"""C17 - OneToOne / ManyToMany stay mutual inverses; FrozenDict immutable and content-hashed."""
import collections
import copy
import pickle
import types

from hypothesis import strategies as st

from vlib.core import Outcome, Sub, HarnessError

from boltons.dictutils import OneToOne, ManyToMany, FrozenDict, FrozenHashError

LEVEL = 'exploration'
RULE = ('histories (<=30 ops) applied to the forward or the inverse object of a OneToOne / ManyToMany, with several '
        'live instances (copies, instances built/updated from one another) mutated independently, over a pool of 6 '
        'shared keys/values; reference = plain dict bijection / set of pairs; every instance is checked after every step. '
        'non-trivial: OneToOne - an assignment evicted an existing partner; ManyToMany - some key had >=2 values and '
        'some value >=2 keys; FrozenDict - >=2 items. distinct = distinct canonical JSON of the case.')
ASSUMPTIONS = [
    'OneToOne.popitem may pop any present item; ManyToMany.replace onto an existing key may union or overwrite, provided both sides agree',
    'update(**kwargs) without a positional argument is not generated (OneToOne.update requires one)',
    'values are hashable except in the explicit unhashable-value attempts (TypeError, nothing changed)',
]

POOL = [0, 1, 1000, 'a', 'b', (1,), 'long-key']
NP = len(POOL)


def P(i):
    """the i-th pool value; where CPython does not share equal objects anyway (ints > 256, tuples, strings built at run time)
    every call returns a *fresh* object that is equal but not identical to earlier ones"""
    v = POOL[i % NP]
    if isinstance(v, int) and v > 256:
        return int(str(v))
    if isinstance(v, tuple):
        return tuple(list(v))
    if isinstance(v, str) and len(v) > 1:
        return ''.join(list(v))
    return v


class Token:
    """a value with identity-based equality and hash (like most plain class instances); picklable"""
    def __init__(self, n):
        self.n = n

    def __repr__(self):
        return 'Token(%d)' % self.n


def _call(f, *a, **kw):
    try:
        return ('ok', f(*a, **kw))
    except Exception as e:      # noqa
        return ('exc', type(e).__name__, str(e)[:200])


# ---------------------------------------------------------------------------
# OneToOne

_i = st.integers(0, NP - 1)
_side = st.sampled_from(['f', 'i'])
_u = st.integers(0, 3)
_pairs = st.lists(st.tuples(_i, _i).map(list), max_size=4)
_forms = st.sampled_from(['dict', 'odict', 'proxy', 'pairs', 'iter', 'gen', 'pairs+kw', 'dict+kw'])


def _oto_op():
    return st.one_of(
        st.tuples(st.just('set'), _u, _side, _i, _i),
        st.tuples(st.just('set'), _u, _side, _i, _i),
        st.tuples(st.just('set_unhashable'), _u, _side, _i),
        st.tuples(st.just('del'), _u, _side, _i),
        st.tuples(st.just('update'), _u, _side, _forms, _pairs, st.lists(st.tuples(st.integers(0, 1), _i).map(list), max_size=2)),
        st.tuples(st.just('update_unhashable'), _u, _side, st.sampled_from(['dict', 'pairs', 'iter']), _pairs, st.integers(0, 4)),
        st.tuples(st.just('ior'), _u, _side, st.sampled_from(['dict', 'pairs', 'iter']), _pairs),
        st.tuples(st.just('setdefault'), _u, _side, _i, st.one_of(st.none(), _i)),
        st.tuples(st.just('pop'), _u, _side, _i, st.one_of(st.none(), _i)),
        st.tuples(st.just('popitem'), _u, _side),
        st.tuples(st.just('clear'), _u, _side),
        st.tuples(st.just('copy'), _u, _side),
    ).map(list)


def strat_oto(tier):
    return st.fixed_dictionaries({
        'sub': st.just('oto'),
        'ctor': st.tuples(st.sampled_from(['empty', 'dict', 'pairs', 'kwargs', 'unique']), _pairs).map(list),
        'ops': st.lists(_oto_op(), max_size=20 if tier == 'quick' else 30),
    })


def _inv(d):
    return {v: k for k, v in d.items()}


def _m_assign(d, k, v):
    """reference bijection assignment; returns True when a partner was evicted"""
    evicted = False
    for k2 in [k2 for k2, v2 in d.items() if v2 == v and k2 != k]:
        del d[k2]
        evicted = True
    if k in d and d[k] != v:
        evicted = True
    d[k] = v
    return evicted


def _mk_arg(form, pairs, kw):
    kwd = {('a' if n == 0 else 'b'): v for n, v in kw}
    base = form.split('+')[0]
    d = {}
    for k, v in pairs:
        d[k] = v
    if base == 'dict':
        arg = dict(d)
        eff = list(d.items())
    elif base == 'odict':
        arg = collections.OrderedDict(d)
        eff = list(d.items())
    elif base == 'proxy':
        arg = types.MappingProxyType(dict(d))
        eff = list(d.items())
    elif base == 'pairs':
        arg = list(pairs)
        eff = list(pairs)
    elif base == 'iter':
        arg = iter(list(pairs))
        eff = list(pairs)
    elif base == 'gen':
        arg = (p for p in list(pairs))
        eff = list(pairs)
    else:
        raise HarnessError('form %r' % (form,))
    if not form.endswith('+kw'):
        kwd = {}
    return arg, kwd, eff + list(kwd.items())


def _check_oto(o, model, out, where):
    fwd = _call(lambda: dict(o))
    inv = _call(lambda: dict(o.inv))
    if fwd != ('ok', model):
        out.fail('c17.oto.forward', '%s: dict(o) = %r, reference %r' % (where, fwd, model))
        return False
    if inv != ('ok', _inv(model)):
        out.fail('c17.oto.inverse', '%s: dict(o.inv) = %r, but dict(o) = %r' % (where, inv, model))
        return False
    if len(o) != len(model) or len(o.inv) != len(model):
        out.fail('c17.oto.len', '%s: len %d / %d, reference %d' % (where, len(o), len(o.inv), len(model)))
        return False
    if o.inv.inv is not o:
        out.fail('c17.oto.inv-inv', '%s: o.inv.inv is not o' % where)
        return False
    for k in POOL:
        if (k in o) != (k in model) or (k in o.inv) != (k in _inv(model)):
            out.fail('c17.oto.contains', '%s: membership of %r wrong' % (where, k))
            return False
        if o.get(k) != model.get(k) or o.inv.get(k) != _inv(model).get(k):
            out.fail('c17.oto.get', '%s: get(%r) wrong' % (where, k))
            return False
    return True


def run_oto(case):
    out = Outcome()
    form, cp = case['ctor']
    pairs = [(P(a), P(b)) for a, b in cp]
    model = {}
    uniq_conflict = False
    try:
        if form == 'empty':
            o = OneToOne()
        elif form == 'dict':
            d = {}
            for k, v in pairs:
                d[k] = v
            o = OneToOne(d)
            model = _inv(_inv(d))
        elif form == 'pairs':
            o = OneToOne(list(pairs))
            # constructor = dict(pairs), then for a repeated value its last key wins
            model = _inv(_inv(dict(pairs)))
        elif form == 'kwargs':
            kw = {('a' if i % 2 == 0 else 'b'): v for i, (k, v) in enumerate(pairs)}
            o = OneToOne(**kw)
            model = _inv(_inv(kw))
        elif form == 'unique':
            d = {}
            for k, v in pairs:
                d[k] = v
            uniq_conflict = len(set(d.values())) != len(d)
            r = _call(OneToOne.unique, d)
            if uniq_conflict:
                if r[0] != 'exc' or r[1] != 'ValueError':
                    return out.fail('c17.oto.unique', 'OneToOne.unique(%r) -> %r, expected ValueError' % (d, r))
                o = OneToOne()
            else:
                if r[0] != 'ok':
                    return out.fail('c17.oto.unique', 'OneToOne.unique(%r) -> %r' % (d, r))
                o = r[1]
                model = dict(d)
        else:
            raise HarnessError('ctor %r' % (form,))
    except HarnessError:
        raise
    except Exception as e:
        return out.fail('c17.oto.ctor-raises', 'OneToOne ctor %s %r raised %r' % (form, pairs, e))
    univ = [[o, model]]
    if not _check_oto(o, model, out, 'after ctor %s %r' % (form, pairs)):
        return out
    evictions = 0
    for step, op in enumerate(case['ops']):
        name, ui, side = op[0], op[1], op[2]
        u = univ[ui % len(univ)]
        obj, mdl = u
        tgt = obj if side == 'f' else obj.inv
        m = mdl if side == 'f' else _inv(mdl)
        exp = ('ok', None)
        where = 'step %d %r' % (step, op)
        if name == 'set':
            k, v = P(op[3]), P(op[4])
            got = _call(tgt.__setitem__, k, v)
            if _m_assign(m, k, v):
                evictions += 1
        elif name == 'set_unhashable':
            k = P(op[3])
            got = _call(tgt.__setitem__, k, [1])
            exp = ('exc', 'TypeError')
        elif name == 'del':
            k = P(op[3])
            got = _call(tgt.__delitem__, k)
            if k in m:
                del m[k]
            else:
                exp = ('exc', 'KeyError')
        elif name == 'update':
            pairs = [(P(a), P(b)) for a, b in op[4]]
            arg, kwd, eff = _mk_arg(op[3], pairs, [(n, P(v)) for n, v in op[5]])
            got = _call(tgt.update, arg, **kwd)
            for k, v in eff:
                if _m_assign(m, k, v):
                    evictions += 1
        elif name == 'update_unhashable':
            pairs = [(P(a), P(b)) for a, b in op[4]]
            pos = op[5] % (len(pairs) + 1)
            pairs.insert(pos, ('zz', [2]))
            form = op[3]
            if form == 'dict':
                arg = {}
                for k, v in pairs:
                    arg[k] = v
            elif form == 'pairs':
                arg = list(pairs)
            else:
                arg = iter(list(pairs))
            got = _call(tgt.update, arg)
            exp = ('exc', 'TypeError')
        elif name == 'ior':
            pairs = [(P(a), P(b)) for a, b in op[4]]
            arg, kwd, eff = _mk_arg(op[3], pairs, [])

            def _ior(t=tgt, a=arg):
                t2 = t
                t2 |= a
                if t2 is not t:
                    raise AssertionError('|= returned another object')
            got = _call(_ior)
            for k, v in eff:
                if _m_assign(m, k, v):
                    evictions += 1
        elif name == 'setdefault':
            k = P(op[3])
            if op[4] is None:
                got = _call(tgt.setdefault, k)
                if k not in m:
                    _m_assign(m, k, None)
            else:
                v = P(op[4])
                got = _call(tgt.setdefault, k, v)
                if k not in m:
                    if _m_assign(m, k, v):
                        evictions += 1
            exp = ('ok', m[k])
        elif name == 'pop':
            k = P(op[3])
            if op[4] is None:
                got = _call(tgt.pop, k)
                exp = ('ok', m.pop(k)) if k in m else ('exc', 'KeyError')
            else:
                d = P(op[4])        # may be the very object stored under the key (exposes 'is default' shortcuts)
                got = _call(tgt.pop, k, d)
                exp = ('ok', m.pop(k)) if k in m else ('ok', d)
        elif name == 'popitem':
            got = _call(tgt.popitem)
            if not m:
                exp = ('exc', 'KeyError')
            else:
                if got[0] == 'ok' and isinstance(got[1], tuple) and len(got[1]) == 2 and \
                        got[1][0] in m and m[got[1][0]] == got[1][1]:
                    del m[got[1][0]]
                    exp = got
                else:
                    return out.fail('c17.oto.popitem', '%s -> %r on %r' % (where, got, m))
        elif name == 'clear':
            got = _call(tgt.clear)
            m.clear()
        elif name == 'copy':
            r = _call(tgt.copy)
            if r[0] != 'ok' or type(r[1]) is not OneToOne or r[1] is tgt:
                return out.fail('c17.oto.copy', '%s -> %r' % (where, r))
            if len(univ) < 4:
                univ.append([r[1], dict(m)])
            got = ('ok', None)
        else:
            raise HarnessError('op %r' % (op,))
        u[1] = m if side == 'f' else _inv(m)
        if exp[0] == 'ok':
            if got[:2] != exp[:2]:
                return out.fail('c17.oto.return.' + name, '%s returned %r, reference %r' % (where, got, exp))
        elif got[0] != 'exc' or got[1] != exp[1]:
            return out.fail('c17.oto.return.' + name, '%s returned %r, reference raises %s' % (where, got, exp[1]))
        for j, (ob, md) in enumerate(univ):
            if not _check_oto(ob, md, out, 'after %s, instance %d' % (where, j)):
                return out
    out.nontrivial = evictions > 0
    if evictions:
        out.label('eviction')
    if len(univ) > 1:
        out.label('copies')
    return out


# ---------------------------------------------------------------------------
# ManyToMany

def _m2m_op():
    return st.one_of(
        st.tuples(st.just('add'), _u, _side, _i, _i),
        st.tuples(st.just('add'), _u, _side, _i, _i),
        st.tuples(st.just('add'), _u, _side, _i, _i),
        st.tuples(st.just('remove'), _u, _side, _i, _i),
        st.tuples(st.just('setitem'), _u, _side, _i, st.lists(_i, max_size=3)),
        st.tuples(st.just('del'), _u, _side, _i),
        st.tuples(st.just('replace'), _u, _side, _i, _i),
        st.tuples(st.just('update'), _u, _side, st.sampled_from(['pairs', 'iter', 'dict']), _pairs),
        st.tuples(st.just('update_from'), _u, _side, _u, _side),
        st.tuples(st.just('construct_from'), _u, _side),
    ).map(list)


def strat_m2m(tier):
    return st.fixed_dictionaries({
        'sub': st.just('m2m'),
        'ctor': st.tuples(st.sampled_from(['empty', 'pairs', 'dict', 'iter']), _pairs).map(list),
        'ops': st.lists(_m2m_op(), max_size=20 if tier == 'quick' else 30),
    })


def _t(ps):
    return {(v, k) for k, v in ps}


def _check_m2m(m, model, out, where):
    f = _call(lambda: list(m.iteritems()))
    i = _call(lambda: list(m.inv.iteritems()))
    if f[0] != 'ok' or len(f[1]) != len(set(f[1])) or set(f[1]) != model:
        out.fail('c17.m2m.forward', '%s: pairs %r, reference %r' % (where, f, sorted(model, key=repr)))
        return False
    if i[0] != 'ok' or len(i[1]) != len(set(i[1])) or set(i[1]) != _t(model):
        out.fail('c17.m2m.inverse', '%s: inv pairs %r, forward pairs %r' % (where, i, sorted(model, key=repr)))
        return False
    for obj, ps, nm in ((m, model, 'm'), (m.inv, _t(model), 'm.inv')):
        keys = {k for k, _ in ps}
        r = _call(lambda: list(obj.keys()))
        if r[0] != 'ok' or sorted(map(repr, r[1])) != sorted(map(repr, keys)):
            out.fail('c17.m2m.keys', '%s: %s.keys() = %r, reference %r (empty entry or missing key)' % (where, nm, r, keys))
            return False
        if _call(lambda: len(obj)) != ('ok', len(keys)) or _call(lambda: sorted(map(repr, obj))) != ('ok', sorted(map(repr, keys))):
            out.fail('c17.m2m.len-iter', '%s: len/iter of %s disagree with keys %r' % (where, nm, keys))
            return False
        for k in POOL:
            exp = frozenset(v for kk, v in ps if kk == k)
            r = _call(lambda: obj[k])
            if exp:
                if r != ('ok', exp) or type(r[1]) is not frozenset:
                    out.fail('c17.m2m.getitem', '%s: %s[%r] = %r, reference %r' % (where, nm, k, r, exp))
                    return False
            elif r[0] != 'exc' or r[1] != 'KeyError':
                out.fail('c17.m2m.getitem', '%s: %s[%r] = %r, reference KeyError' % (where, nm, k, r))
                return False
            if _call(lambda: obj.get(k)) != ('ok', exp) or _call(lambda: k in obj) != ('ok', bool(exp)):
                out.fail('c17.m2m.get-contains', '%s: %s.get(%r)/contains wrong' % (where, nm, k))
                return False
    if m.inv.inv is not m:
        out.fail('c17.m2m.inv-inv', '%s: m.inv.inv is not m' % where)
        return False
    r = _call(lambda: m == ManyToMany(list(model)))
    if r != ('ok', True):
        out.fail('c17.m2m.eq', '%s: m == ManyToMany(same pairs) -> %r' % (where, r))
        return False
    return True


def run_m2m(case):
    out = Outcome()
    form, cp = case['ctor']
    pairs = [(P(a), P(b)) for a, b in cp]
    model = set()
    try:
        if form == 'empty':
            m = ManyToMany()
        elif form == 'pairs':
            m = ManyToMany(list(pairs))
            model = set(pairs)
        elif form == 'iter':
            m = ManyToMany(iter(list(pairs)))
            model = set(pairs)
        elif form == 'dict':
            d = {}
            for k, v in pairs:
                d[k] = v
            m = ManyToMany(d)
            model = set(d.items())
        else:
            raise HarnessError('ctor %r' % (form,))
    except HarnessError:
        raise
    except Exception as e:
        return out.fail('c17.m2m.ctor-raises', 'ManyToMany ctor %s %r raised %r' % (form, pairs, e))
    univ = [[m, model]]
    if not _check_m2m(m, model, out, 'after ctor %s %r' % (form, pairs)):
        return out
    fan = False
    for step, op in enumerate(case['ops']):
        name, ui, side = op[0], op[1], op[2]
        u = univ[ui % len(univ)]
        obj, mdl = u
        tgt = obj if side == 'f' else obj.inv
        ps = set(mdl) if side == 'f' else _t(mdl)
        exp = ('ok', None)
        where = 'step %d %r' % (step, op)
        if name == 'add':
            k, v = P(op[3]), P(op[4])
            got = _call(tgt.add, k, v)
            ps.add((k, v))
        elif name == 'remove':
            k, v = P(op[3]), P(op[4])
            got = _call(tgt.remove, k, v)
            if (k, v) in ps:
                ps.discard((k, v))
            else:
                exp = ('exc', 'KeyError')
        elif name == 'setitem':
            k = P(op[3])
            vals = [P(x) for x in op[4]]
            got = _call(tgt.__setitem__, k, vals)
            ps = {(kk, v) for kk, v in ps if kk != k} | {(k, v) for v in vals}
        elif name == 'del':
            k = P(op[3])
            got = _call(tgt.__delitem__, k)
            if any(kk == k for kk, _ in ps):
                ps = {(kk, v) for kk, v in ps if kk != k}
            else:
                exp = ('exc', 'KeyError')
        elif name == 'replace':
            k, k2 = P(op[3]), P(op[4])
            got = _call(tgt.replace, k, k2)
            if any(kk == k for kk, _ in ps) and k != k2:
                moved = {(k2, v) for kk, v in ps if kk == k}
                rest = {(kk, v) for kk, v in ps if kk != k}
                union = rest | moved
                over = {(kk, v) for kk, v in rest if kk != k2} | moved
                now = _call(lambda: set(tgt.iteritems()))
                if now == ('ok', union) or union == over:
                    ps = union
                elif now == ('ok', over):
                    ps = over       # statement fixes consistency only; the per-instance check below decides
                else:
                    return out.fail('c17.m2m.replace', '%s: pairs now %r, reference %r (union) or %r (overwrite)' % (
                        where, now, sorted(union, key=repr), sorted(over, key=repr)))
        elif name == 'update':
            prs = [(P(a), P(b)) for a, b in op[4]]
            form = op[3]
            if form == 'dict':
                d = {}
                for k, v in prs:
                    d[k] = v
                arg, eff = d, list(d.items())
            elif form == 'iter':
                arg, eff = iter(list(prs)), prs
            else:
                arg, eff = list(prs), prs
            got = _call(tgt.update, arg)
            ps |= set(eff)
        elif name == 'update_from':
            src_u = univ[op[3] % len(univ)]
            src = src_u[0] if op[4] == 'f' else src_u[0].inv
            src_ps = set(src_u[1]) if op[4] == 'f' else _t(src_u[1])
            if src is tgt or src is tgt.inv:
                continue
            got = _call(tgt.update, src)
            ps |= src_ps
        elif name == 'construct_from':
            r = _call(ManyToMany, tgt)
            if r[0] != 'ok' or type(r[1]) is not ManyToMany:
                return out.fail('c17.m2m.construct', '%s -> %r' % (where, r))
            if len(univ) < 4:
                univ.append([r[1], set(ps)])
            got = ('ok', None)
        else:
            raise HarnessError('op %r' % (op,))
        u[1] = ps if side == 'f' else _t(ps)
        if exp[0] == 'ok':
            if got[:2] != exp[:2]:
                return out.fail('c17.m2m.return.' + name, '%s returned %r, reference %r' % (where, got, exp))
        elif got[0] != 'exc' or got[1] != exp[1]:
            return out.fail('c17.m2m.return.' + name, '%s returned %r, reference raises %s' % (where, got, exp[1]))
        for j, (ob, md) in enumerate(univ):
            if not _check_m2m(ob, md, out, 'after %s, instance %d' % (where, j)):
                if out.kind in ('c17.m2m.forward', 'c17.m2m.inverse', 'c17.m2m.keys') and ob is not obj:
                    out.kind += '.other-instance'
                return out
        cur = u[1]
        if not fan and cur:
            kc = collections.Counter(k for k, _ in cur)
            vc = collections.Counter(v for _, v in cur)
            if max(kc.values()) >= 2 and max(vc.values()) >= 2:
                fan = True
    out.nontrivial = fan
    if fan:
        out.label('fan_out_both_sides')
    if len(univ) > 1:
        out.label('several_instances')
    return out


# ---------------------------------------------------------------------------
# FrozenDict

_fval = st.one_of(_i.map(lambda i: ['h', i]), st.sampled_from([['list', 0], ['dict', 0], ['set', 0], ['nested', 0]]),
                  st.sampled_from([['token', 0], ['token', 1]]))


def strat_frozen(tier):
    return st.fixed_dictionaries({
        'sub': st.just('frozen'),
        'items': st.lists(st.tuples(_i, st.one_of(_fval, _i.map(lambda i: ['h', i]), _i.map(lambda i: ['h', i]))).map(list), max_size=6),
        'rot': st.integers(0, 5),
        'upd': st.lists(st.tuples(_i, _i).map(list), max_size=3),
    })


def _fv(spec):
    kind, i = spec
    if kind == 'h':
        return P(i)
    if kind == 'token':
        return Token(i)
    return {'list': [1, 2], 'dict': {'x': 1}, 'set': {1}, 'nested': (1, [2])}[kind]


def run_frozen(case):
    out = Outcome()
    d = {}
    for k, vs in case['items']:
        d[P(k)] = _fv(vs)
    items = list(d.items())
    rot = case['rot'] % (len(items) or 1)
    items2 = items[rot:] + items[:rot]
    items2.reverse()
    hashable = True
    for _, v in items:
        try:
            hash(v)
        except TypeError:
            hashable = False
    try:
        fd = FrozenDict(items)
        fd2 = FrozenDict(dict(items2))
    except Exception as e:
        return out.fail('c17.frozen.ctor', 'FrozenDict(%r) raised %r' % (items, e))
    out.nontrivial = len(items) >= 2
    out.label('hashable' if hashable else 'unhashable')
    snapshot = dict(items)
    k0 = items[0][0] if items else 'a'
    muts = [
        ('setitem', lambda: fd.__setitem__(k0, 1)), ('setitem-new', lambda: fd.__setitem__('zz', 1)),
        ('delitem', lambda: fd.__delitem__(k0)), ('update', lambda: fd.update({'zz': 1})),
        ('update-kw', lambda: fd.update(zz=1)), ('update-empty', lambda: fd.update({})),
        ('ior', lambda: fd.__ior__({'zz': 1})), ('setdefault', lambda: fd.setdefault('zz', 1)),
        ('setdefault-present', lambda: fd.setdefault(k0, 1)),
        ('pop', lambda: fd.pop(k0)), ('pop-default', lambda: fd.pop('zz', None)), ('popitem', lambda: fd.popitem()),
        ('clear', lambda: fd.clear()),
    ]

    def _ior_stmt():
        x = fd
        x |= {'zz': 1}
    muts.append(('ior-stmt', _ior_stmt))
    for name, f in muts:
        r = _call(f)
        if r[0] != 'exc' or r[1] != 'TypeError':
            return out.fail('c17.frozen.mutator-' + name.split('-')[0], 'FrozenDict(%r).%s -> %r, expected TypeError' % (items, name, r))
        if dict(fd) != snapshot or len(fd) != len(snapshot):
            return out.fail('c17.frozen.mutated', 'FrozenDict changed by %s: %r, was %r' % (name, dict(fd), snapshot))
    if not (fd == fd2) or fd != fd2:
        return out.fail('c17.frozen.eq', '%r != %r' % (fd, fd2))
    if hashable:
        h = [_call(hash, fd), _call(hash, fd2), _call(hash, fd)]
        if h[0][0] != 'ok' or h[0] != h[1] or h[0] != h[2]:
            return out.fail('c17.frozen.hash', 'hash(%r)=%r hash(%r)=%r' % (fd, h[0], fd2, h[1]))
        r = _call(lambda: {fd: 1}[fd2])
        if r != ('ok', 1):
            return out.fail('c17.frozen.as-key', 'lookup of equal FrozenDict as dict key -> %r' % (r,))
    else:
        for _ in range(2):
            for x in (fd, fd2):
                r = _call(hash, x)
                if r[0] != 'exc' or r[1] != 'FrozenHashError':
                    return out.fail('c17.frozen.hash-unhashable', 'hash(%r) -> %r, expected FrozenHashError' % (x, r))
        if not issubclass(FrozenHashError, TypeError):
            return out.fail('c17.frozen.hash-unhashable', 'FrozenHashError is not a TypeError')
    upd = {P(a): P(b) for a, b in case['upd']}
    exp_upd = dict(snapshot)
    exp_upd.update(upd)
    news = [('updated(dict)', lambda: fd.updated(upd), exp_upd),
            ('updated(pairs)', lambda: fd.updated(list(upd.items())), exp_upd),
            ('updated(kw)', lambda: fd.updated(zz=1), dict(snapshot, zz=1)),
            # positional and keyword arguments naming the same key: like dict.update, the keyword wins
            ('updated(dict+kw)', lambda: fd.updated({'a': 'pos', 'b': 'pos'}, a='kw', zz=1), dict(snapshot, a='kw', b='pos', zz=1)),
            ('updated(pairs+kw)', lambda: fd.updated(iter([('a', 'pos'), ('a', 'pos2')]), a='kw'), dict(snapshot, a='kw')),
            ('updated()', lambda: fd.updated(), snapshot),
            ('copy.copy', lambda: copy.copy(fd), snapshot),
            ('copy.deepcopy', lambda: copy.deepcopy(fd), snapshot),
            ('pickle2', lambda: pickle.loads(pickle.dumps(fd, 2)), snapshot),
            ('pickle5', lambda: pickle.loads(pickle.dumps(fd, 5)), snapshot)]
    sames = []
    has_token = any(isinstance(v, Token) for v in snapshot.values())
    if has_token:
        out.label('identity_hashed_values')
    for name, f, exp in news:
        r = _call(f)
        if has_token and name in ('copy.deepcopy', 'pickle2', 'pickle5'):
            # the copies hold new Token objects (identity equality): compare structure, then self-consistency of the copy
            if r[0] != 'ok' or type(r[1]) is not FrozenDict or list(r[1]) != list(snapshot) or \
                    [repr(v) for v in r[1].values()] != [repr(v) for v in snapshot.values()]:
                return out.fail('c17.frozen.' + name.split('(')[0], '%s of %r -> %r' % (name, fd, r))
            twin = FrozenDict(dict(r[1]))
            if not (twin == r[1]):
                return out.fail('c17.frozen.eq', '%s result %r != FrozenDict(dict(result))' % (name, r[1]))
            if hashable:
                ha, hb = _call(hash, r[1]), _call(hash, twin)
                if ha[0] != 'ok' or ha != hb:
                    return out.fail('c17.frozen.hash', 'x = %s of %r: hash(x) = %r but the equal FrozenDict(dict(x)) hashes to %r' % (name, fd, ha, hb))
                if _call(lambda: {twin: 1}[r[1]]) != ('ok', 1):
                    return out.fail('c17.frozen.as-key', '%s result cannot be found under an equal key' % name)
            continue
        if r[0] != 'ok' or type(r[1]) is not FrozenDict or dict(r[1]) != exp:
            return out.fail('c17.frozen.' + name.split('(')[0], '%s of %r -> %r, expected FrozenDict(%r)' % (name, fd, r, exp))
        if dict(fd) != snapshot:
            return out.fail('c17.frozen.mutated', 'FrozenDict changed by %s' % name)
        # the new instance hashes by ITS content - hash() was already attempted on the original above (with or without success),
        # and nothing of that may carry over: same outcome as for an equal FrozenDict built from scratch
        ha, hb = _call(hash, r[1]), _call(hash, FrozenDict(exp))
        if ha[:2] != hb[:2]:
            return out.fail('c17.frozen.hash', 'x = %s of %r (hash() was tried on the original before): hash(x) -> %r, but the equal FrozenDict(%r) built from scratch -> %r' % (
                name, fd, ha[:2], exp, hb[:2]))
        if exp == snapshot:
            if not (r[1] == fd):
                return out.fail('c17.frozen.' + name.split('(')[0], '%s result != original' % name)
            if hashable and _call(hash, r[1]) != _call(hash, fd):
                return out.fail('c17.frozen.hash', 'hash of %s result differs' % name)
        r2 = _call(r[1].__setitem__, 'q', 1)
        if r2[0] != 'exc' or r2[1] != 'TypeError':
            return out.fail('c17.frozen.mutator-setitem', '%s result is mutable: %r' % (name, r2))
        if exp == snapshot:
            sames.append((name, r[1]))
    # equality once more, now that hash() has been attempted (successfully or not) on every instance involved
    for name, x in [('the same items in another order', fd2)] + sames:
        _call(hash, x)
        _call(hash, fd)
        if not (x == fd) or (x != fd) or not (fd == x):
            return out.fail('c17.frozen.eq-after-hash', '%s: equal to the original before hash() was tried on both, unequal afterwards (%r vs %r)' % (name, x, fd))
    return out


SUBS = {
    'oto': Sub('oto', strat_oto, run_oto, quick=8000, thorough=200000, quick_shards=6),
    'm2m': Sub('m2m', strat_m2m, run_m2m, quick=8000, thorough=200000, quick_shards=6),
    'frozen': Sub('frozen', strat_frozen, run_frozen, quick=3000, thorough=60000, quick_shards=2),
}
