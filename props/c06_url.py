"""C06 - URL components survive render->parse; quote/unquote; fixed points; totality of parsing."""
import re
import socket
import unicodedata
import urllib.parse

from hypothesis import strategies as st

from vlib.core import Outcome, Sub, HarnessError, is_known

from boltons import urlutils
from boltons.urlutils import URL, URLParseError, find_all_links
from boltons.dictutils import OrderedMultiDict

LEVEL = 'exploration'
RULE = ('(a) component injection: username, password, 1-4 path segments, 0-4 query pairs and fragment drawn from text biased to every RFC 3986 '
        'delimiter, "%", "%41", "%zz", space, "+", ";", control and non-ASCII characters (combining sequences, astral), with registered and '
        'unregistered schemes, LDH/IDN/IPv4/IPv6 hosts and ports, built with URL.from_parts and by assigning attributes; oracle: strict RFC 3986 '
        'syntax of to_text(full_quote=True) per component + exact recovery (up to NFC) after re-parsing. (b) quote_*_part/unquote round trip and '
        'unquote vs a reference decoder and urllib.parse.unquote. (c) URIs/relative references generated from the RFC 3986 grammar: render(parse) '
        'is a fixed point (fully quoted; minimally quoted when no decoded component contains "%"). (d) totality: URL(text) returns or raises '
        'URLParseError, find_all_links never raises, for arbitrary/salted/mutated texts. non-trivial: (a) some component contains a character '
        'that must be escaped there; (b) text with "%" or non-ASCII; (c) >= 3 non-empty components; (d) text that matches the URL regex with '
        'a non-empty authority. distinct = distinct canonical JSON of the case.')
ASSUMPTIONS = [
    'no lone surrogates (not encodable as UTF-8); hosts in (a)/(c) are DNS-encodable (IDNA) names over a nameprep-stable lower-case alphabet or IP literals',
    'a query pair with an empty key and no value cannot be written in a query string and is not generated',
    'from_parts cannot express an IPv6 host (no family argument): IPv6 hosts are built by parsing a base URL and assigning attributes',
]

# ---------------------------------------------------------------------------
# strict RFC 3986 component syntax (independent of boltons' tables)

UNRESERVED = r'A-Za-z0-9._~\-'
SUBDELIMS = "!$&'()*+,;="
PCT = '%[0-9A-Fa-f]{2}'
RE_USERINFO_PART = re.compile('^(?:[%s%s]|%s)*$' % (UNRESERVED, re.escape(SUBDELIMS), PCT))
RE_SEGMENT = re.compile('^(?:[%s%s:@]|%s)*$' % (UNRESERVED, re.escape(SUBDELIMS), PCT))
RE_QUERY = re.compile('^(?:[%s%s:@/?]|%s)*$' % (UNRESERVED, re.escape(SUBDELIMS), PCT))
RE_APPENDIX_B = re.compile(r'^(([^:/?#]+):)?(//([^/?#]*))?([^?#]*)(\?([^#]*))?(#(.*))?$', re.S)


def _call(f, *a, **kw):
    try:
        return ('ok', f(*a, **kw))
    except Exception as e:      # noqa
        return ('exc', type(e).__name__, str(e)[:200])


def nfc(s):
    return unicodedata.normalize('NFC', s)


SIGNIFICANT = list(":/?#[]@!$&'()*+,;=") + ['%', '%41', '%zz', '%2F', '%', ' ', '+', '\t', '\n', '\x00', '\x7f', '\x1f', '"', '<', '>', '\\', '^', '`',
                                            '{', '|', '}', '~', '.', '..', '-', '_', 'a', 'Z', '0', '\xe9', 'e\u0301', '\u212b', '\u20ac', '\U0001f600',
                                            '\u0301', '\xa0', '\u200b', '\ufffd', '%C3%A9', '%FF', 'a b', 'a+b', 'a&b=c', 'k=v', ';', 'x;y', '=', '&',
                                            # code points that codecs / text layers treat specially: BOM, non-characters, line/paragraph
                                            # separators, bidi controls, the ends of the BMP and of Unicode, the surrogate neighbours
                                            '\ufeff', '\ufeffk', '\ufffe', '\uffff', '\u2028', '\u2029', '\x85', '\u202e', '\ud7ff', '\ue000',
                                            '\U0010ffff', '\U000e0001', '%EF%BB%BF']
_piece = st.one_of(st.sampled_from(SIGNIFICANT), st.sampled_from(SIGNIFICANT), st.sampled_from(['a', 'b', 'ab', 'x1']),
                   st.text(max_size=3))
_comp = st.lists(_piece, min_size=0, max_size=4).map(''.join)
_comp_ne = st.lists(_piece, min_size=1, max_size=4).map(''.join)

SCHEMES_NETLOC = ['http', 'https', 'ftp', 'ws', 'ssh', 'git+ssh', 'svn', 'ldap']
SCHEMES_UNREG = ['myscheme', 'x-app', 'foo+bar']
IPV6 = ['::1', '2001:db8::1', 'fe80::1', '::ffff:1.2.3.4', '1080:0:0:0:8:800:200c:417a', '::']
_label = st.from_regex(r'[a-z0-9]([a-z0-9-]{0,6}[a-z0-9])?', fullmatch=True)
_ilabel = st.text(alphabet='ab\xe9\xfc\xf1\u0436\u4e2d\u03b1', min_size=1, max_size=5)
_host = st.one_of(
    st.lists(_label, min_size=1, max_size=3).map(lambda ls: ['ldh', '.'.join(ls)]),
    st.lists(st.one_of(_ilabel, _label), min_size=1, max_size=3).map(lambda ls: ['idn', '.'.join(ls)]),
    st.tuples(st.integers(0, 255), st.integers(0, 255), st.integers(0, 255), st.integers(0, 255)).map(lambda t: ['ipv4', '%d.%d.%d.%d' % t]),
    st.sampled_from(IPV6).map(lambda h: ['ipv6', h]),
)


def strat_a(tier):
    return st.fixed_dictionaries({
        'sub': st.just('a'),
        'scheme': st.sampled_from(SCHEMES_NETLOC + SCHEMES_NETLOC + SCHEMES_UNREG),
        'host': _host,
        'port': st.one_of(st.none(), st.just('default'), st.integers(1, 65535)),
        'username': _comp, 'password': _comp,
        'segments': st.lists(_comp, min_size=1, max_size=4),
        'query': st.lists(st.tuples(_comp, st.one_of(st.none(), _comp)).map(list), max_size=4),
        'fragment': _comp,
        # 'assign_rendered': the URL object was rendered (both quoting levels) while only half-built; the remaining components and
        # query items were set afterwards, through the different mutators of the attribute / query_params
        'build': st.sampled_from(['from_parts', 'assign', 'from_parts', 'assign', 'from_parts_omd', 'from_parts_qpd', 'assign_rendered', 'assign_rendered']),
    })


def _encodable(s):
    try:
        s.encode('utf-8')
        return True
    except UnicodeEncodeError:
        return False


def _needs_escape(s, kind):
    if kind == 'user':
        return not RE_USERINFO_PART.match(s) or '%' in s
    if kind == 'seg':
        return not RE_SEGMENT.match(s) or '%' in s
    return not RE_QUERY.match(s) or '%' in s or any(c in s for c in '&=+;')


def run_a(case):
    out = Outcome()
    texts = [case['username'], case['password'], case['fragment']] + list(case['segments'])
    for k, v in case['query']:
        texts.append(k)
        if v is not None:
            texts.append(v)
    if not all(_encodable(t) for t in texts):
        raise HarnessError('lone surrogate in a component')
    scheme = case['scheme']
    hkind, host = case['host']
    default_port = urlutils.SCHEME_PORT_MAP.get(scheme, urlutils.SCHEME_PORT_MAP.get(scheme.split('+')[-1]))
    port = case['port']
    if port == 'default':
        port = default_port
    username, password, fragment = case['username'], case['password'], case['fragment']
    segments = list(case['segments'])
    query = [(k, v) for k, v in case['query'] if not (k == '' and v is None)]
    build = case['build']
    if hkind == 'ipv6' and build != 'assign_rendered':
        build = 'assign'
    desc = 'scheme=%r host=%r port=%r username=%r password=%r segments=%r query=%r fragment=%r via %s' % (
        scheme, host, port, username, password, segments, query, fragment, build)
    try:
        if build in ('from_parts', 'from_parts_omd', 'from_parts_qpd'):
            # query_params in any documented form: a list of pairs, an OrderedMultiDict, the query_params of another URL
            qarg = list(query)
            if build == 'from_parts_omd':
                qarg = OrderedMultiDict(query)
            elif build == 'from_parts_qpd':
                donor = URL('http://donor.example/')
                for k, v in query:
                    donor.query_params.add(k, v)
                qarg = donor.query_params
            u = URL.from_parts(scheme=scheme, host=host, path_parts=[''] + segments, query_params=qarg,
                               fragment=fragment, port=port, username=username, password=password)
        elif build == 'assign_rendered':
            base = '%s://%s' % (scheme, '[%s]' % host if hkind == 'ipv6' else host)
            u = URL(base)
            half = len(query) // 2
            u.username, u.fragment = username, 'earlier-fragment'
            u.path_parts = tuple([''] + segments[:1] + ['earlier'])
            u.query_params.clear()
            for k, v in query[:half]:
                u.query_params.add(k, v)
            u.to_text(full_quote=True)
            u.to_text()
            str(u)
            u.password, u.fragment, u.port = password, fragment, port
            u.path_parts = tuple([''] + segments)
            rest = query[half:]
            i = 0
            while i < len(rest):
                j = i
                while j < len(rest) and rest[j][0] == rest[i][0]:
                    j += 1
                how = (i + len(segments)) % 3
                if how == 0:
                    u.query_params.addlist(rest[i][0], [v for _, v in rest[i:j]])
                elif how == 1:
                    u.query_params.update_extend(rest[i:j])
                else:
                    for k, v in rest[i:j]:
                        u.query_params.add(k, v)
                i = j
            out.label('rendered_while_half_built')
        else:
            base = '%s://%s' % (scheme, '[%s]' % host if hkind == 'ipv6' else host)
            u = URL(base)
            u.username, u.password, u.fragment, u.port = username, password, fragment, port
            u.path_parts = tuple([''] + segments)
            u.query_params.clear()
            for k, v in query:
                u.query_params.add(k, v)
    except Exception as e:
        return out.fail('c06.a.build-raises', 'building URL (%s) raised %r' % (desc, e))
    r = _call(u.to_text, full_quote=True)
    if r[0] != 'ok':
        return out.fail('c06.a.to_text-raises', 'to_text(full_quote=True) for %s -> %r' % (desc, r))
    T = r[1]
    # ---- (1) syntax ------------------------------------------------------
    try:
        T.encode('ascii')
    except UnicodeEncodeError:
        return out.fail('c06.a.non-ascii', 'fully quoted text %r is not ASCII (%s)' % (T, desc))
    m = RE_APPENDIX_B.match(T)
    if not m:
        raise HarnessError('appendix B regex did not match')
    t_scheme, t_auth, t_path, t_query, t_frag = m.group(2), m.group(4), m.group(5), m.group(7), m.group(9)
    if t_scheme != scheme or t_auth is None:
        return out.fail('c06.a.structure', '%r splits into scheme %r / authority %r (%s)' % (T, t_scheme, t_auth, desc))
    userinfo, at, hostport = t_auth.rpartition('@')
    if at:
        for part in userinfo.split(':', 1):
            if not RE_USERINFO_PART.match(part):
                return out.fail('c06.a.illegal-char.userinfo', 'userinfo %r of %r has characters illegal there (%s)' % (userinfo, T, desc))
    if '@' in userinfo:
        return out.fail('c06.a.illegal-char.userinfo', 'raw "@" inside userinfo %r of %r' % (userinfo, T))
    for seg in t_path.split('/'):
        if not RE_SEGMENT.match(seg):
            return out.fail('c06.a.illegal-char.path', 'path segment %r of %r has characters illegal there (%s)' % (seg, T, desc))
    if t_query is not None and not RE_QUERY.match(t_query):
        return out.fail('c06.a.illegal-char.query', 'query %r of %r has characters illegal there (%s)' % (t_query, T, desc))
    if t_frag is not None and not RE_QUERY.match(t_frag):
        return out.fail('c06.a.illegal-char.fragment', 'fragment %r of %r has characters illegal there (%s)' % (t_frag, T, desc))
    # ---- (2) recovery ----------------------------------------------------
    r = _call(URL, T)
    if r[0] != 'ok':
        return out.fail('c06.a.reparse-raises', 'URL(%r) -> %r (%s)' % (T, r, desc))
    U = r[1]
    checks = [
        ('username', U.username, nfc(username)), ('password', U.password, nfc(password)),
        ('path_parts', tuple(U.path_parts), tuple([''] + [nfc(s) for s in segments])),
        ('fragment', U.fragment, nfc(fragment)),
        ('scheme', U.scheme, scheme),
    ]
    qp = _call(lambda: U.query_params.items(multi=True))
    exp_q = [(nfc(k), None if v is None else nfc(v)) for k, v in query]
    checks.append(('query_params', qp[1] if qp[0] == 'ok' else qp, exp_q))
    for name, got, exp in checks:
        if got != exp:
            kind = 'c06.a.recover.' + name
            return out.fail(kind, '%s not recovered: %r, expected %r; text %r (%s)' % (name, got, exp, T, desc))
    if hkind == 'ipv6':
        if U.host != host or U.family != socket.AF_INET6:
            return out.fail('c06.a.recover.host', 'IPv6 host %r came back as %r (family %r); text %r' % (host, U.host, U.family, T))
    elif U.host != host:
        return out.fail('c06.a.recover.host', 'host %r came back as %r; text %r' % (host, U.host, T))
    if U.port != port and not (port == default_port and U.port is None):
        return out.fail('c06.a.recover.port', 'port %r came back as %r; text %r' % (port, U.port, T))
    out.nontrivial = (_needs_escape(username, 'user') or _needs_escape(password, 'user') or any(_needs_escape(s, 'seg') for s in segments)
                      or any(_needs_escape(k, 'q') or (v is not None and _needs_escape(v, 'q')) for k, v in query) or _needs_escape(fragment, 'q'))
    out.label('host:' + hkind)
    if any(v == '' for _, v in query):
        out.label('empty_query_value')
    if username == '' and password:
        out.label('password_without_username')
    if any(';' in k or (v and ';' in v) for k, v in query):
        out.label('semicolon_in_query')
    return out


def matrix_cases():
    """every significant string x component x position (alone / between letters)"""
    for s in sorted(set(SIGNIFICANT)):
        for comp in ('username', 'password', 'segment', 'key', 'value', 'fragment'):
            for pos in ('alone', 'between'):
                t = s if pos == 'alone' else 'a' + s + 'b'
                case = {'sub': 'a', 'scheme': 'http', 'host': ['ldh', 'h.example'], 'port': None, 'username': 'u', 'password': 'p',
                        'segments': ['s'], 'query': [['k', 'v']], 'fragment': 'f', 'build': 'from_parts'}
                if comp in ('username', 'password', 'fragment'):
                    case[comp] = t
                elif comp == 'segment':
                    case['segments'] = ['s', t, 'e']
                elif comp == 'key':
                    if t == '':
                        continue
                    case['query'] = [['k', 'v'], [t, 'v2'], ['z', None]]
                else:
                    case['query'] = [['k', t], ['z', 'w']]
                yield case


# ---------------------------------------------------------------------------
# (b) quote / unquote

_qtext = st.one_of(
    st.lists(st.one_of(st.sampled_from(['%', '%4', '%41', '%zz', '%C3%A9', '%C3', '%A9', '%FF', '%E2%82%AC', '%F0%9F%98%80', '%F0%9F', '%25', '%2',
                                        '%%', '%G1', '%1G', '+', ' ', '\xe9', '\u20ac', 'e\u0301', 'a', 'B', '0', '/', '?', '#', '&', '=', ';', '%e9', '%c3%a9']),
                       st.text(max_size=2)), max_size=8).map(''.join),
    st.text(max_size=12),
)


def strat_b(tier):
    return st.fixed_dictionaries({'sub': st.just('b'), 'text': _qtext})


def _esc_at(s, i):
    hexd = '0123456789abcdefABCDEF'
    return s[i] == '%' and i + 3 <= len(s) and s[i + 1] in hexd and s[i + 2] in hexd


def ref_unquote(s):
    """maximal runs of well-formed %XX escapes -> bytes -> UTF-8 (errors='replace'); everything else untouched"""
    out = []
    i, n = 0, len(s)
    while i < n:
        if _esc_at(s, i):
            buf = bytearray()
            while i < n and _esc_at(s, i):
                buf.append(int(s[i + 1:i + 3], 16))
                i += 3
            out.append(bytes(buf).decode('utf-8', 'replace'))
        else:
            out.append(s[i])
            i += 1
    return ''.join(out)


def run_b(case):
    out = Outcome()
    t = case['text']
    if not _encodable(t):
        raise HarnessError('surrogate')
    out.nontrivial = '%' in t or any(ord(c) > 127 for c in t)
    for name in ('quote_path_part', 'quote_query_part', 'quote_fragment_part', 'quote_userinfo_part'):
        f = getattr(urlutils, name)
        q = _call(f, t, True)
        if q[0] != 'ok':
            return out.fail('c06.b.quote-raises', '%s(%r, True) -> %r' % (name, t, q))
        try:
            q[1].encode('ascii')
        except UnicodeEncodeError:
            return out.fail('c06.b.quote-non-ascii', '%s(%r, True) = %r' % (name, t, q[1]))
        if not RE_QUERY.match(q[1]):
            return out.fail('c06.b.quote-illegal', '%s(%r, True) = %r contains characters that are never legal unescaped' % (name, t, q[1]))
        back = _call(urlutils.unquote, q[1])
        if back != ('ok', nfc(t)):
            return out.fail('c06.b.round-trip', 'unquote(%s(%r, True)) = %r, expected %r' % (name, t, back, nfc(t)))
    u = _call(urlutils.unquote, t)
    exp = ref_unquote(t)
    std = urllib.parse.unquote(t, errors='replace')
    if u != ('ok', exp):
        return out.fail('c06.b.unquote', 'unquote(%r) = %r, reference %r (urllib: %r)' % (t, u, exp, std))
    if exp != std:
        out.label('reference_differs_from_urllib')
    return out


# ---------------------------------------------------------------------------
# (c) RFC 3986 grammar

_unres = st.sampled_from(list('abcxyzAZ019') + ['-', '.', '_', '~'])
_pct = st.sampled_from(['%41', '%7E', '%20', '%2F', '%3F', '%23', '%25', '%40', '%3A', '%C3%A9', '%E2%82%AC', '%F0%9F%98%80', '%FF', '%C3', '%3B', '%26',
                        '%3D', '%2B', '%5B', '%00', '%0A', '%e9', '%c3%a9', '%2f'])
_sub = st.sampled_from(list(SUBDELIMS))
_pchar = st.one_of(_unres, _unres, _unres, _pct, _sub, st.sampled_from([':', '@']))
_segment = st.lists(_pchar, max_size=4).map(''.join)
_segment_nz = st.lists(_pchar, min_size=1, max_size=4).map(''.join)
_segment_nz_nc = st.lists(st.one_of(_unres, _unres, _pct, _sub, st.just('@')), min_size=1, max_size=4).map(''.join)
_qf = st.lists(st.one_of(_pchar, _pchar, st.sampled_from(['/', '?'])), max_size=8).map(''.join)
_uinfo = st.lists(st.one_of(_unres, _unres, _pct, _sub, st.just(':')), max_size=5).map(''.join)
_ghost = st.one_of(
    st.lists(_label, min_size=1, max_size=3).map('.'.join),
    st.tuples(st.integers(0, 255), st.integers(0, 255), st.integers(0, 255), st.integers(0, 255)).map(lambda t: '%d.%d.%d.%d' % t),
    st.sampled_from(IPV6).map(lambda h: '[%s]' % h),
    st.sampled_from(['EXAMPLE.com', 'xn--bcher-kva.ch', 'localhost', 'a-b.c-d.example']),
)


@st.composite
def _uri(draw):
    parts = {}
    is_rel = draw(st.sampled_from([False, False, True]))
    scheme = None if is_rel else draw(st.sampled_from(SCHEMES_NETLOC + ['mailto', 'urn', 'news', 'myscheme', 'HTTP', 'x+y.z-1']))
    form = draw(st.sampled_from(['authority', 'authority', 'absolute', 'rootless', 'empty']))
    text = ''
    if scheme:
        text += scheme + ':'
    n_nonempty = 1 if scheme else 0
    if form == 'authority':
        auth = ''
        if draw(st.booleans()) and draw(st.booleans()):
            ui = draw(_uinfo)
            auth += ui + '@'
            n_nonempty += bool(ui)
        auth += draw(_ghost)
        n_nonempty += 1
        p = draw(st.one_of(st.none(), st.none(), st.just(''), st.integers(0, 65535).map(str), st.sampled_from(['80', '443', '21', '8080'])))
        if p is not None:
            auth += ':' + p
        segs = draw(st.lists(_segment, max_size=4))
        text += '//' + auth + ''.join('/' + s for s in segs)
        n_nonempty += any(segs)
    elif form == 'absolute':
        first = draw(_segment_nz)
        segs = draw(st.lists(_segment, max_size=3))
        text += '/' + first + ''.join('/' + s for s in segs)
        n_nonempty += 1
    elif form == 'rootless':
        first = draw(_segment_nz_nc if is_rel else _segment_nz)
        segs = draw(st.lists(_segment, max_size=3))
        text += first + ''.join('/' + s for s in segs)
        n_nonempty += 1
    q = draw(st.one_of(st.none(), st.none(), _qf, st.lists(st.tuples(_segment, st.one_of(st.none(), _segment)), max_size=3).map(
        lambda prs: '&'.join(k if v is None else k + '=' + v for k, v in prs))))
    if q is not None:
        text += '?' + q
        n_nonempty += bool(q)
    f = draw(st.one_of(st.none(), st.none(), _qf))
    if f is not None:
        text += '#' + f
        n_nonempty += bool(f)
    return {'sub': 'c', 'text': text, 'n': n_nonempty}


def strat_c(tier):
    return _uri()


def _has_pct(U):
    comps = [U.username or '', U.password or '', U.fragment or ''] + list(U.path_parts)
    for k, v in U.query_params.items(multi=True):
        comps.append(k)
        if v is not None:
            comps.append(v)
    return any('%' in c for c in comps)


def _components(u):
    port = u.port
    if port is not None and port == urlutils.SCHEME_PORT_MAP.get(u.scheme, urlutils.SCHEME_PORT_MAP.get((u.scheme or '').split('+')[-1])):
        port = None         # an explicit default port and no port are the same reference
    return {'scheme': u.scheme, 'username': u.username, 'password': u.password, 'host': u.host, 'port': port,
            'path_parts': tuple(u.path_parts), 'query': list(u.query_params.items(multi=True)), 'fragment': u.fragment}


def run_c(case):
    out = Outcome()
    t = case['text']
    out.nontrivial = case.get('n', 0) >= 3
    mm = RE_APPENDIX_B.match(t)
    if mm and mm.group(4) is not None and mm.group(4).rpartition('@')[2].startswith(':'):
        return out          # (shrinker artefact) an authority with a port but no host is outside the generated grammar
    r = _call(URL, t)
    if r[0] != 'ok':
        return out.fail('c06.c.parse-raises', 'URL(%r), a grammar-generated reference, -> %r' % (t, r))
    t1 = _call(r[1].to_text, full_quote=True)
    if t1[0] != 'ok':
        return out.fail('c06.c.to_text-raises', 'URL(%r).to_text(True) -> %r' % (t, t1))
    r2 = _call(URL, t1[1])
    if r2[0] != 'ok':
        return out.fail('c06.c.reparse-raises', 'URL(%r) [rendering of %r] -> %r' % (t1[1], t, r2))
    t2 = _call(r2[1].to_text, full_quote=True)
    if t2 != t1:
        return out.fail('c06.c.not-fixed-point', '%r renders to %r, which re-parses and renders to %r' % (t, t1[1], t2))
    # ... and the rendering must mean the same reference: every component of the re-parsed URL equals the original's
    # (a text that happens to be a fixed point but is read back as something else - 'a%3Ab' -> 'a:b' = scheme 'a' - is no round trip)
    c1, c2 = _components(r[1]), _components(r2[1])
    if c1 != c2:
        diff = [k for k in c1 if c1[k] != c2[k]]
        return out.fail('c06.c.components-changed', '%r renders to %r, which parses back with different %s: %r, originally %r' % (
            t, t1[1], '/'.join(diff), {k: c2[k] for k in diff}, {k: c1[k] for k in diff}))
    if not _has_pct(r[1]):
        m1 = _call(URL(t).to_text, full_quote=False)
        if m1[0] != 'ok':
            return out.fail('c06.c.to_text-raises', 'URL(%r).to_text(False) -> %r' % (t, m1))
        rm = _call(URL, m1[1])
        if rm[0] != 'ok':
            return out.fail('c06.c.reparse-raises', 'URL(%r) [minimal rendering of %r] -> %r' % (m1[1], t, rm))
        m2 = _call(rm[1].to_text, full_quote=False)
        if m2 != m1:
            return out.fail('c06.c.not-fixed-point.minimal', '%r renders (minimal quoting) to %r, which re-parses and renders to %r' % (t, m1[1], m2))
        out.label('minimal_quoting_checked')
    if '?' in t and t.split('#')[0].endswith('?'):
        out.label('present_but_empty_query')
    if not re.match(r'^[A-Za-z][A-Za-z0-9+.-]*:', t):
        out.label('relative_reference')
    return out


# ---------------------------------------------------------------------------
# (d) totality

_salt = st.sampled_from(['http://', 'https://', 'www.', 'ftp://', '//', '://', '[', ']', '[::1]', '[::', 'xn--', 'xn--a', 'xn--a.com', ':80', ':x', ':',
                         '@', '\x00', ' ', '\n', '%', '%zz', '#', '?', '/', '.', '..', 'a..b', 'A' * 64, '\xe9', '\u0130', '\u2028', 'mailto:',
                         'a' * 70 + '.com', 'http://[', 'http://]', 'http://[::1', 'http://a:b@c:d', '(', ')', '&amp;', '<', '>', '\\', '\ud800'.encode('utf-16', 'surrogatepass').decode('utf-16', 'replace'),
                         'example.com', 'www.example.com', 'http://example.com/a(b)c', '1.2.3.4', '256.1.1.1', '\u3002', '\uff0e',
                         # scale classes: ports beyond int()'s 4300-digit conversion limit, non-ASCII decimal digits, long labels/paths
                         ':' + '7' * 4300, ':' + '7' * 4301, 'http://h.example:' + '9' * 5000 + '/', ':\u0661\u0662', ':\u00b2', ':\uff11',
                         'a' * 5000, 'http://' + 'a.' * 3000 + 'com', '/' * 3000, '%41' * 2000, '\ufeff', '\ufeffhttp://',
                         # lone surrogates (what os.fsdecode / json.loads can put into a str), alone and next to escapes
                         '\udc80', '\ud800', '%41\udc80', '#%23\udc80', '?k=%20\ud800',
                         # scheme-less links whose host only fails validation once a scheme is supplied
                         'www.xn--0.example', ' www.xn--a.com now', 'www.xn--.com/', 'www.' + 'a' * 64 + '.com', 'www.a..b.com'])


def strat_d(tier):
    return st.fixed_dictionaries({
        'sub': st.just('d'),
        'text': st.one_of(st.text(max_size=20),
                          st.lists(st.one_of(_salt, _salt, st.text(max_size=3), _label), max_size=8).map(''.join),
                          _uri().flatmap(lambda c: st.tuples(st.just(c['text']), st.integers(0, 60), _salt).map(
                              lambda t: t[0][:t[1] % (len(t[0]) + 1)] + t[2] + t[0][t[1] % (len(t[0]) + 1):]))),
        'with_text': st.booleans(),
        'default_scheme': st.sampled_from(['https', 'https', False, 'ftp']),
        'schemes': st.sampled_from([[], [], ['http'], ['https', 'ftp']]),
    })


def run_d(case):
    out = Outcome()
    t = case['text']
    m = urlutils._URL_RE.match(t) if hasattr(urlutils, '_URL_RE') else None
    out.nontrivial = bool(m and m.group('authority'))
    r = _call(URL, t)
    if r[0] == 'exc' and r[1] != 'URLParseError':
        return out.fail('c06.d.url-raises', 'URL(%r) raised %s: %s (only URLParseError is allowed)' % (t, r[1], r[2]))
    if r[0] == 'exc':
        out.label('URLParseError')
    if _encodable(t):
        rb = _call(URL, t.encode('utf-8'))
        if rb[0] == 'exc' and rb[1] != 'URLParseError':
            return out.fail('c06.d.url-raises', 'URL(%r) [bytes] raised %s: %s' % (t.encode('utf-8'), rb[1], rb[2]))
        if rb[0] != r[0]:
            return out.fail('c06.d.bytes-differs', 'URL(%r) -> %s but URL(bytes) -> %s' % (t, r[0], rb[0]))
    f = _call(find_all_links, t, with_text=case['with_text'], default_scheme=case['default_scheme'], schemes=tuple(case['schemes']))
    if f[0] != 'ok':
        return out.fail('c06.d.find_all_links-raises', 'find_all_links(%r, with_text=%r, default_scheme=%r, schemes=%r) raised %s: %s' % (
            t, case['with_text'], case['default_scheme'], case['schemes'], f[1], f[2]))
    if case['with_text']:
        joined = ''.join(x if isinstance(x, str) else '' for x in f[1])
        if not all(isinstance(x, (str, URL)) for x in f[1]):
            return out.fail('c06.d.find_all_links-result', 'find_all_links(%r) returned %r' % (t, f[1]))
    if f[1] and any(isinstance(x, URL) for x in f[1]):
        out.label('links_found')
    return out


def extra(tier, seed, deadline):
    """exhaustive character x component x position matrix for sub-check (a)"""
    from vlib.main import safe_run
    from vlib.core import case_hash
    n = 0
    nt = set()
    failures = []
    excluded = {}
    for case in matrix_cases():
        out, herr = safe_run(SUBS['a'], case)
        if herr is not None:
            raise HarnessError(herr)
        n += 1
        if out.nontrivial:
            nt.add('m' + case_hash(case))
        for k in out.excluded:
            excluded[k] = excluded.get(k, 0) + 1
        if not out.ok and not is_known(out.kind) and len(failures) < 6:
            failures.append(('a', out.kind, case, out.detail))
    return {'evaluations': n, 'nontrivial_hashes': nt, 'failures': failures, 'excluded': excluded,
            'labels': {'a.matrix_cases': n},
            'samples': [], 'info': {'matrix': {'strings': len(set(SIGNIFICANT)), 'components': 6, 'positions': 2, 'cases': n, 'exhaustive': True}}}


SUBS = {
    'a': Sub('a', strat_a, run_a, quick=4000, thorough=200000, quick_shards=5),
    'b': Sub('b', strat_b, run_b, quick=6000, thorough=200000, quick_shards=2),
    'c': Sub('c', strat_c, run_c, quick=5000, thorough=200000, quick_shards=5),
    'd': Sub('d', strat_d, run_d, quick=8000, thorough=300000, quick_shards=4),
}
