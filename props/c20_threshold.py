"""C20 - ThresholdCounter: never over-counts, bounded under-count, stays small."""
import collections
import types
import math

from hypothesis import strategies as st

from vlib.core import Outcome, Sub, HarnessError, is_known

from boltons.cacheutils import ThresholdCounter

LEVEL = 'exploration'
RULE = ('threshold in {1/k, k=2..60} or a float in [0.01, 0.95]; stream of <=600 additions (quick) / 3000 (thorough) mixing add(k), '
        'update(iterable), update(mapping), update(**counts), update(iterable, **counts); two families: skewed random keys over '
        'a small or large universe, and adversarial bucket plans (groups of fresh keys with multiplicity 5,4,3,2 and fresh '
        'singletons - the shape that keeps most keys alive). An exact collections.Counter runs beside it; after every call the '
        'count bounds are checked for the keys just touched, and for every key ever seen around each compaction boundary and '
        'every 7th call. non-trivial = >=2 compactions and a key that was dropped re-entered later. '
        'distinct = distinct canonical JSON of the case.')
ASSUMPTIONS = [
    'floor(1/threshold) is evaluated in double arithmetic, as int(1 / threshold)',
    'update(mapping) counts are small non-negative integers',
    'the size clause len <= 2/threshold is a recorded known finding (lossy counting tracks up to (1/t)*H(buckets) keys); while that '
    'finding reproduces, only growth beyond the provable bound w*H(b)+w is a violation of the size clause',
]

KNOWN_SIZE = 'c20.size-bound-exceeds-2-over-threshold'


def _call(f, *a, **kw):
    try:
        return ('ok', f(*a, **kw))
    except Exception as e:      # noqa
        return ('exc', type(e).__name__, str(e)[:200])


def strat(tier):
    big = tier != 'quick'
    max_ops = 60 if not big else 150
    U = st.sampled_from([4, 12, 40, 200])

    @st.composite
    def case(draw):
        th = draw(st.one_of(st.integers(2, 60).map(lambda k: ['inv', k]),
                            st.integers(2, 12).map(lambda k: ['inv', k]),
                            st.floats(0.01, 0.95).map(lambda f: ['float', f])))
        u = draw(U)
        key = st.integers(0, u - 1).flatmap(lambda a: st.integers(0, a))    # skewed towards small indices
        cnt = st.integers(0, 4)
        op = st.one_of(
            st.tuples(st.just('add'), key), st.tuples(st.just('add'), key), st.tuples(st.just('add'), key),
            st.tuples(st.just('adds'), st.lists(key, min_size=1, max_size=30)),
            st.tuples(st.just('update_iter'), st.lists(key, max_size=12), st.sampled_from(['list', 'iter', 'tuple'])),
            st.tuples(st.just('update_map'), st.lists(st.tuples(key, cnt).map(list), max_size=5), st.sampled_from(['dict', 'counter', 'odict', 'proxy', 'chainmap', 'userdict'])),
            st.tuples(st.just('update_kw'), st.lists(st.tuples(key, cnt).map(list), min_size=1, max_size=4)),
            st.tuples(st.just('update_reentrant'), st.lists(key, min_size=1, max_size=8), key),
            st.tuples(st.just('update_map_kw'), st.lists(st.tuples(key, cnt).map(list), min_size=1, max_size=3),
                      st.lists(st.tuples(key, cnt).map(list), min_size=1, max_size=3)),
            st.tuples(st.just('update_both'), st.lists(key, max_size=6), st.lists(st.tuples(key, cnt).map(list), min_size=1, max_size=3)),
            st.tuples(st.just('plan'),
                      st.lists(st.tuples(st.integers(2, 6), st.integers(1, 30)).map(list), max_size=4),
                      st.integers(0, 70)),
            st.tuples(st.just('fill_bucket'), st.sampled_from(['fresh', 'same'])),
            st.tuples(st.just('harmonic_plan'), st.integers(3, 8), st.integers(0, 3)),
        ).map(list)
        return {'sub': 'tc', 'threshold': th, 'ops': draw(st.lists(op, max_size=max_ops)),
                'limit': 600 if not big else 3000}
    return case()


_SPECIAL_KEYS = {1: None, 3: 0, 5: '', 7: ()}     # None / falsy keys among the frequent ones


def K(i):
    return _SPECIAL_KEYS.get(i, 'k%d' % i)


def KW(i):
    return 'k%d' % i        # keyword-argument names must be identifiers


def harmonic(n):
    return sum(1.0 / i for i in range(1, n + 1))


class RefLossy:
    """Textbook lossy counting (Manku & Motwani), used only to recognise the known size finding:
    the 2/threshold overshoot is 'known' only while the tracked key set is exactly the textbook one."""

    def __init__(self, w):
        self.w, self.n, self.bucket, self.entries = w, 0, 1, {}

    def add(self, k):
        self.n += 1
        if k in self.entries:
            self.entries[k][0] += 1
        else:
            self.entries[k] = [1, self.bucket - 1]
        if self.n % self.w == 0:
            self.entries = {k: e for k, e in self.entries.items() if e[0] + e[1] > self.bucket}
            self.bucket += 1


def run(case):
    out = Outcome()
    kind, v = case['threshold']
    threshold = 1.0 / v if kind == 'inv' else float(v)
    if not (0 < threshold < 1):
        raise HarnessError('threshold %r' % threshold)
    w = int(1 / threshold)
    r = _call(ThresholdCounter, threshold=threshold)
    if r[0] != 'ok':
        return out.fail('c20.ctor', 'ThresholdCounter(threshold=%r) -> %r' % (threshold, r))
    tc = r[1]
    true = collections.Counter()
    lossy = RefLossy(w)
    total = 0
    fresh = [0]
    dropped = set()
    reentered = False
    limit = case.get('limit', 600)
    size_excluded = False

    def full_check(where, keys):
        nonlocal reentered, size_excluded

        def bad(kind, msg):
            out.fail('c20.' + kind, '%s (threshold %r, w=%d, total=%d): %s' % (where, threshold, w, total, msg))
            return False
        if _call(lambda: tc.total) != ('ok', total):
            return bad('total', 'tc.total = %r, %d additions made' % (_call(lambda: tc.total), total))
        slack = total // w
        for k in keys:
            g = _call(tc.get, k, 0)
            if g[0] != 'ok':
                return bad('get', 'get(%r, 0) -> %r' % (k, g))
            if g[1] > true[k]:
                return bad('overcount', 'count of %r reported %r > true count %d' % (k, g[1], true[k]))
            if true[k] - g[1] > slack:
                return bad('undercount', 'count of %r reported %r, true %d: short by more than floor(total/w) = %d' % (
                    k, g[1], true[k], slack))
            pres = _call(lambda: k in tc)
            if pres[0] != 'ok' or (pres[1] is False and g[1] != 0):
                return bad('contains', '%r in tc -> %r but get -> %r' % (k, pres, g))
            if pres[1] is True:
                gi = _call(lambda: tc[k])
                if gi != ('ok', g[1]):
                    return bad('getitem', 'tc[%r] -> %r, get -> %r' % (k, gi, g[1]))
                if k in dropped:
                    dropped.discard(k)
                    reentered = True
            else:
                gi = _call(lambda: tc[k])
                if gi[0] != 'exc' or gi[1] != 'KeyError':
                    return bad('getitem', 'tc[%r] for an untracked key -> %r' % (k, gi))
                if true[k]:
                    dropped.add(k)
        return True

    def views_check(where):
        nonlocal size_excluded

        def bad(kind, msg):
            out.fail('c20.' + kind, '%s (threshold %r, w=%d, total=%d): %s' % (where, threshold, w, total, msg))
            return False
        items = _call(tc.items)
        if items[0] != 'ok':
            return bad('items', 'items() -> %r' % (items,))
        d = dict(items[1])
        if len(d) != len(items[1]):
            return bad('items', 'items() has duplicate keys')
        n = _call(len, tc)
        if n != ('ok', len(d)):
            return bad('len', 'len = %r, items has %d' % (n, len(d)))
        for k, c in d.items():
            if k not in true or c > true[k] or c < 1:
                return bad('items', 'items() reports %r: %r, true count %r' % (k, c, true.get(k)))
        if _call(lambda: sorted(tc.keys(), key=repr)) != ('ok', sorted(d, key=repr)) or \
                _call(lambda: sorted(tc.iterkeys(), key=repr)) != ('ok', sorted(d, key=repr)):
            return bad('keys', 'keys() disagree with items()')
        if _call(lambda: sorted(tc.values())) != ('ok', sorted(d.values())) or \
                _call(lambda: sorted(tc.itervalues())) != ('ok', sorted(d.values())):
            return bad('values', 'values() disagree with items()')
        if _call(lambda: sorted(tc.iteritems(), key=repr)) != ('ok', sorted(d.items(), key=repr)):
            return bad('iteritems', 'iteritems() disagree with items()')
        el = _call(lambda: collections.Counter(tc.elements()))
        if el != ('ok', collections.Counter(d)):
            return bad('elements', 'elements() -> %r, items %r' % (el, d))
        cc, uc = _call(tc.get_common_count), _call(tc.get_uncommon_count)
        if cc != ('ok', sum(d.values())) or uc[0] != 'ok' or cc[1] + uc[1] != total:
            return bad('common-uncommon', 'get_common_count()=%r get_uncommon_count()=%r, sum of counts %d' % (cc, uc, sum(d.values())))
        for nn in (None, 1, 2, len(d), len(d) + 3):
            mc = _call(tc.most_common) if nn is None else _call(tc.most_common, nn)
            if mc[0] != 'ok':
                return bad('most_common', 'most_common(%r) -> %r' % (nn, mc))
            want = len(d) if nn is None else min(nn, len(d))
            got = mc[1]
            counts = [c for _, c in got]
            ok = (len(got) == want and all(d.get(k) == c for k, c in got) and len({k for k, _ in got}) == len(got)
                  and counts == sorted(counts, reverse=True))
            if ok and want < len(d) and got:
                rest = [c for k, c in d.items() if k not in {k for k, _ in got}]
                ok = not rest or min(counts) >= max(rest)
            if not ok:
                return bad('most_common', 'most_common(%s) -> %r for counts %r' % ('' if nn is None else nn, got, d))
            # the list belongs to the caller: the next query must not be served from it
            got.reverse()
            got.append((('POISON',), -1))
        # size clause
        if len(d) > 2.0 / threshold:
            b = total // w
            provable = w * harmonic(max(b, 1)) + w
            if len(d) > provable:
                return bad('size-unbounded', '%d keys tracked: beyond even the lossy-counting bound w*H(b)+w = %.1f (b=%d)' % (
                    len(d), provable, b))
            textbook = {k: e[0] for k, e in lossy.entries.items()}
            if is_known(KNOWN_SIZE) and d == textbook:
                if not size_excluded:
                    size_excluded = True
                    out.excluded.append(KNOWN_SIZE)
            elif d == textbook:
                return bad(KNOWN_SIZE[4:], '%d keys tracked > 2/threshold = %.1f' % (len(d), 2.0 / threshold))
            else:
                return bad('size-not-lossy-counting', '%d keys tracked > 2/threshold = %.1f, and not the key set textbook lossy '
                           'counting would track (%d keys)' % (len(d), 2.0 / threshold, len(textbook)))
        return True

    compactions = 0
    ncalls = 0
    for step, op in enumerate(case['ops']):
        if total >= limit:
            break
        name = op[0]
        where = 'after step %d %s' % (step, name if name in ('plan', 'adds') else op)
        calls = []      # list of (callable description, keys added in order)
        if name == 'add':
            calls.append(('add', [K(op[1])], lambda k=K(op[1]): tc.add(k)))
        elif name == 'adds':
            for i in op[1]:
                calls.append(('add', [K(i)], lambda k=K(i): tc.add(k)))
        elif name == 'update_iter':
            ks = [K(i) for i in op[1]]
            arg = {'list': list, 'tuple': tuple, 'iter': iter}[op[2]](ks)
            calls.append(('update(%s)' % op[2], ks, lambda a=arg: tc.update(a)))
        elif name == 'update_reentrant':
            # update() from a lazy source that itself adds to the same counter while it is being consumed
            # (e.g. a generator over words that also tallies an end-of-line marker): every addition counts, in the order made
            ks1 = [K(i) for i in op[1]]
            extra_k = K(op[2])
            ks = []
            for k in ks1:
                ks += [extra_k, k]

            def reentrant(ks1=ks1, extra_k=extra_k):
                def source():
                    for k in ks1:
                        tc.add(extra_k)
                        yield k
                return tc.update(source())
            calls.append(('update(<generator that also calls add(%r) before each of %r>)' % (extra_k, ks1), ks, reentrant))
        elif name == 'update_map':
            d = collections.OrderedDict()
            for i, c in op[1]:
                d[K(i)] = c
            arg = {'dict': dict, 'counter': collections.Counter, 'odict': collections.OrderedDict,
                   'proxy': lambda x: types.MappingProxyType(dict(x)), 'chainmap': lambda x: collections.ChainMap(dict(x)),
                   'userdict': lambda x: collections.UserDict(dict(x))}[op[2]](d)
            ks = [k for k, c in d.items() for _ in range(c)]
            calls.append(('update(%s %r)' % (op[2], dict(d)), ks, lambda a=arg: tc.update(a)))
        elif name == 'update_kw':
            d = collections.OrderedDict()
            for i, c in op[1]:
                d[KW(i)] = c
            ks = [k for k, c in d.items() for _ in range(c)]
            calls.append(('update(**%r)' % dict(d), ks, lambda a=dict(d): tc.update(**a)))
        elif name == 'update_map_kw':
            # a positional mapping and keyword counts in one call, naming the same keys: both counts are additions
            d1, d2 = collections.OrderedDict(), collections.OrderedDict()
            for i, c in op[1]:
                d1[KW(i)] = c
            for i, c in op[2]:
                d2[KW(i)] = c
            ks = [k for k, c in d1.items() for _ in range(c)] + [k for k, c in d2.items() for _ in range(c)]
            calls.append(('update(%r, **%r)' % (dict(d1), dict(d2)), ks, lambda a=dict(d1), b=dict(d2): tc.update(a, **b)))
        elif name == 'update_both':
            ks1 = [K(i) for i in op[1]]
            d = collections.OrderedDict()
            for i, c in op[2]:
                d[KW(i)] = c
            ks = ks1 + [k for k, c in d.items() for _ in range(c)]
            calls.append(('update(%r, **%r)' % (ks1, dict(d)), ks, lambda a=ks1, b=dict(d): tc.update(a, **b)))
        elif name == 'plan':
            for mult, nkeys in op[1]:
                for _ in range(nkeys):
                    fresh[0] += 1
                    k = 'f%d' % fresh[0]
                    for _ in range(mult):
                        calls.append(('add', [k], lambda k=k: tc.add(k)))
            for _ in range(op[2]):
                fresh[0] += 1
                k = 'f%d' % fresh[0]
                calls.append(('add', [k], lambda k=k: tc.add(k)))
        elif name == 'harmonic_plan':
            # adversarial shape scaled to w: bucket-aligned groups of w//m fresh keys seen m times, m = m_max..2,
            # then w-1 fresh singletons: every one of those keys is still tracked before the next compaction
            def _fresh():
                fresh[0] += 1
                return 'f%d' % fresh[0]
            n = (w - total % w) % w
            for j in range(n):
                calls.append(('add', ['same'], lambda: tc.add('same')))
            for mult in range(op[1], 1, -1):
                used = 0
                for _ in range(w // mult):
                    k = _fresh()
                    for _ in range(mult):
                        calls.append(('add', [k], lambda k=k: tc.add(k)))
                        used += 1
                for _ in range(w - used):
                    k = _fresh()
                    calls.append(('add', [k], lambda k=k: tc.add(k)))
            for _ in range(max(0, w - 1 - op[2])):
                k = _fresh()
                calls.append(('add', [k], lambda k=k: tc.add(k)))
        elif name == 'fill_bucket':
            n = (w - total % w) % w or w
            for j in range(n):
                if op[1] == 'fresh':
                    fresh[0] += 1
                    k = 'f%d' % fresh[0]
                else:
                    k = 'same'
                calls.append(('add', [k], lambda k=k: tc.add(k)))
        else:
            raise HarnessError('op %r' % (op,))
        for desc, ks, f in calls:
            if total >= limit:
                break
            r = _call(f)
            if r != ('ok', None):
                return out.fail('c20.raises', '%s: %s -> %r' % (where, desc, r))
            before = total
            for k in ks:
                true[k] += 1
                lossy.add(k)
            total += len(ks)
            ncalls += 1
            compactions += total // w - before // w
            near = total % w in (0, 1, w - 1) or (total // w != before // w)
            if near or ncalls % 7 == 0:
                if not full_check('%s: %s' % (where, desc), list(true)):
                    return out
                if not views_check('%s: %s' % (where, desc)):
                    return out
            elif not full_check('%s: %s' % (where, desc), set(ks)):
                return out
    if not full_check('at the end', list(true)) or not views_check('at the end'):
        return out
    out.nontrivial = compactions >= 2 and reentered
    if compactions >= 2:
        out.label('two_or_more_compactions')
    if reentered:
        out.label('dropped_key_reentered')
    if size_excluded:
        out.label('size_over_2_over_threshold')
    return out


SUBS = {
    'tc': Sub('tc', strat, run, quick=4000, thorough=96000, quick_shards=8),
}
