"""C15 - backoff sequences: monotone, capped at stop, right length; jitter bounded."""
import itertools
import math
import types

from hypothesis import strategies as st

from vlib.core import Outcome, Sub, HarnessError

from boltons import iterutils

LEVEL = 'exploration'
RULE = ('start in {0} or [1e-6, 1e6], stop >= start (stop > 0), factor in [1, 1000] dense near 1.0/1.5/2/10, count in {None, 0..60, '
        "'repeat'}, jitter in {False, True, [-1, 1]}, random.random replaced by generated draws (incl. 0.0 and 1-2^-53); targeted class: "
        'stop = start*factor^n computed by repeated multiplication and its two floating-point neighbours, where the default count\'s '
        'logarithm rounds; invalid parameters must raise ValueError before anything is yielded. non-trivial = the sequence reaches stop '
        'after >= 2 growth steps, or start = 0, or the targeted rounding class. distinct = distinct canonical JSON of the case.')
ASSUMPTIONS = [
    'finite floats only; factor == 1 with the default count is not generated (the statement defines the default count for factor > 1)',
    'default-count cases keep the expected length <= 2000',
    'jitter bounds are checked with a tolerance of 4 ulp of the un-jittered value (the bound b*(1-j) itself is a rounded product)',
]


def _call(f, *a, **kw):
    try:
        return ('ok', f(*a, **kw))
    except Exception as e:      # noqa
        return ('exc', type(e).__name__, str(e)[:200])


_factor = st.one_of(st.sampled_from([1.0, 1.5, 2.0, 2.0, 3.0, 10.0, 1.1, 1.05]), st.floats(1.0, 1000.0),
                    st.floats(1.0, 1.2), st.floats(1.9, 2.1))
_start = st.one_of(st.just(0.0), st.just(0.0), st.floats(1e-6, 1e6), st.sampled_from([1.0, 0.25, 3.0, 0.1, 100.0]),
                   st.integers(1, 50).map(float),
                   # scale class: positive starts below the float epsilon / far below 1
                   st.sampled_from([1e-17, 2.220446049250313e-16, 2.0e-16, 1e-30, 1e-100, 1e-9]))
_draws = st.lists(st.one_of(st.floats(0.0, 1.0, exclude_max=True), st.sampled_from([0.0, 1.0 - 2.0 ** -53, 0.5])), min_size=1, max_size=8)
_jitter = st.one_of(st.just(False), st.just(False), st.just(True), st.floats(-1.0, 1.0), st.sampled_from([1.0, -1.0, 0.5, -0.5]))
_count = st.one_of(st.none(), st.none(), st.integers(0, 60), st.integers(0, 6), st.just('repeat'))


def strat(tier):
    @st.composite
    def case(draw):
        klass = draw(st.sampled_from(['random', 'random', 'targeted', 'targeted', 'invalid']))
        start = draw(_start)
        factor = draw(_factor)
        count = draw(_count)
        jitter = draw(_jitter)
        draws = draw(_draws)
        if klass == 'targeted':
            if start == 0.0:
                base = 1.0
            else:
                base = start
            if factor <= 1.0:
                factor = 2.0
            n = draw(st.integers(0, 40))
            stop = base
            for _ in range(n):
                stop *= factor
                if stop > 1e300:
                    break
            shift = draw(st.sampled_from([-1, 0, 0, 1, 1, 2]))
            return {'sub': 'backoff', 'klass': klass, 'start': start, 'stop': stop, 'ulps': shift, 'factor': factor,
                    'count': draw(st.sampled_from([None, None, None, 'repeat', 3])), 'jitter': False, 'draws': draws}
        if klass == 'invalid':
            bad = draw(st.sampled_from(['start<0', 'stop=0', 'stop<start', 'factor<1', 'count<0', 'jitter>1', 'jitter<-1']))
            return {'sub': 'backoff', 'klass': klass, 'bad': bad, 'start': start or 1.0, 'stop': (start or 1.0) * 4, 'ulps': 0,
                    'factor': max(factor, 1.5), 'count': draw(st.sampled_from([None, 3, 'repeat', 0, 1])),
                    'jitter': False, 'draws': draws, 'amount': draw(st.floats(0.001, 100.0))}
        stop = draw(st.one_of(st.floats(0.0, 1e9), st.floats(0.0, 2.0), st.integers(1, 1000).map(float)))
        stop = max(stop, start)
        if stop == 0.0:
            stop = 0.5
        return {'sub': 'backoff', 'klass': klass, 'start': start, 'stop': stop, 'ulps': 0, 'factor': factor,
                'count': count, 'jitter': jitter, 'draws': draws}
    return case()


def _ulp_shift(x, k):
    while k > 0:
        x = math.nextafter(x, math.inf)
        k -= 1
    while k < 0:
        x = math.nextafter(x, -math.inf)
        k += 1
    return x


class FakeRandom:
    def __init__(self, draws):
        self.draws = list(draws) or [0.5]
        self.i = 0
        self.used = []

    def random(self):
        v = self.draws[self.i % len(self.draws)]
        self.i += 1
        v = min(max(float(v), 0.0), 1.0 - 2.0 ** -53)
        self.used.append(v)
        return v


def _ref_sequence(start, stop, factor, n):
    seq = []
    cur = start
    for _ in range(n):
        seq.append(cur)
        if cur == 0:
            cur = min(1.0, stop)
        else:
            cur = min(cur * factor, stop)
    return seq


def run(case):
    out = Outcome()
    start, stop, factor = float(case['start']), float(case['stop']), float(case['factor'])
    stop = _ulp_shift(stop, case.get('ulps', 0))
    if case['klass'] != 'invalid' and stop < start:
        stop = start
    count, jitter = case['count'], case['jitter']
    if count == 'repeat' and len(case.get('draws', ())) % 2:
        count = ''.join(('rep', 'eat'))     # an equal string built at run time (not the interned literal)
        out.label('repeat_as_runtime_string')
    for v in (start, stop, factor):
        if not math.isfinite(v):
            raise HarnessError('non-finite parameter')
    if case['klass'] == 'invalid':
        amt = float(case.get('amount', 1.0))
        bad = case['bad']
        if bad == 'start<0':
            start = -amt
        elif bad == 'stop=0':
            start, stop = 0.0, 0.0
        elif bad == 'stop<start':
            stop = start / (1.0 + amt)
            if stop >= start:
                stop = start / 2
        elif bad == 'factor<1':
            factor = 1.0 / (1.0 + amt)
        elif bad == 'count<0':
            count = -1 - int(amt) % 5
        elif bad == 'jitter>1':
            jitter = 1.0 + amt
        elif bad == 'jitter<-1':
            jitter = -1.0 - amt
        desc = 'backoff_iter(%r, %r, count=%r, factor=%r, jitter=%r)' % (start, stop, count, factor, jitter)
        r = _call(lambda: next(iterutils.backoff_iter(start, stop, count=count, factor=factor, jitter=jitter)))
        if r[0] != 'exc' or r[1] != 'ValueError':
            return out.fail('c15.invalid-not-rejected', '%s: first next() -> %r, expected ValueError' % (desc, r))
        if count != 'repeat':
            r = _call(iterutils.backoff, start, stop, count=count, factor=factor, jitter=jitter)
            if r[0] != 'exc' or r[1] != 'ValueError':
                return out.fail('c15.invalid-not-rejected', 'backoff(...) with %s -> %r, expected ValueError' % (desc, r))
        out.label('invalid:' + bad)
        return out
    if stop < start or stop <= 0 or start < 0 or factor < 1:
        raise HarnessError('generator left the valid domain')
    if count is None:
        if factor == 1.0:
            factor = 2.0        # the default count is only defined for factor > 1
        # keep the expected default length bounded
        base = start if start else 1.0
        est = math.log(max(stop / base, 1.0)) / math.log(factor) if factor > 1 else 0
        if est > 2000:
            factor = max(factor, 1.05)
            est = math.log(max(stop / base, 1.0)) / math.log(factor)
            if est > 2000:
                count = 25      # default count would be too long: use an explicit count instead
    desc = 'backoff_iter(%r, %r, count=%r, factor=%r, jitter=%r)' % (start, stop, count, factor, jitter)
    inter = None
    if not jitter and len(case['draws']) % 3 != 1:
        # FIRST use of these parameters in the case: several live iterators over them, advanced in a generated interleaving (one
        # may overtake the other, one is left suspended half-way in half of the cases).  Each must yield a prefix of the sequence,
        # and everything checked below - made afterwards with the same parameters - must be unaffected.
        its = [iterutils.backoff_iter(start, stop, count=count, factor=factor) for _ in range(3)]
        inter = [[], [], []]
        draws = list(case['draws']) or [0.0, 0.9, 0.9, 0.4]
        limit = 2 if draws[0] < 0.5 else 10 ** 6
        live = [0, 1, 2]
        for step in range(90):
            if not live:
                break
            w = live[int(draws[step % len(draws)] * 2.999) % len(live)]
            r = _call(next, its[w], None)
            if r[0] != 'ok':
                return out.fail('c15.interleaved', '%s: one of three interleaved iterators raised %r' % (desc, r))
            if r[1] is None or (w == 2 and len(inter[2]) >= limit):
                live.remove(w)
                continue
            inter[w].append(r[1])
    fake = FakeRandom(case['draws'])
    stub = types.SimpleNamespace(random=fake.random)
    real_random = iterutils.random
    iterutils.random = stub
    try:
        it = _call(iterutils.backoff_iter, start, stop, count=count, factor=factor, jitter=jitter)
        if it[0] != 'ok':
            return out.fail('c15.raises', '%s -> %r' % (desc, it))
        if count == 'repeat':
            r = _call(lambda: list(itertools.islice(it[1], 260)))
            if r[0] == 'ok' and len(r[1]) != 260:
                return out.fail('c15.repeat-ends', "%s with count='repeat' stopped after %d values" % (desc, len(r[1])))
        else:
            r = _call(lambda: list(itertools.islice(it[1], 5000)))
        if r[0] != 'ok':
            return out.fail('c15.raises', '%s -> %r' % (desc, r))
        seq = r[1]
        used = list(fake.used)
        if count != 'repeat':
            fake2 = FakeRandom(case['draws'])
            iterutils.random = types.SimpleNamespace(random=fake2.random)
            r2 = _call(iterutils.backoff, start, stop, count=count, factor=factor, jitter=jitter)
            if r2 != ('ok', seq):
                return out.fail('c15.backoff-differs-from-iter', '%s: backoff() -> %r, list(backoff_iter()) -> %r' % (desc, r2, seq))
            # the returned list belongs to the caller: changing it must not change what an identical later call returns
            r2[1].reverse()
            r2[1].append(-1.0)
            iterutils.random = types.SimpleNamespace(random=FakeRandom(case['draws']).random)
            r3 = _call(iterutils.backoff, start, stop, count=count, factor=factor, jitter=jitter)
            if r3 != ('ok', seq):
                return out.fail('c15.backoff-result-aliased', '%s: a second identical backoff() call, after the caller changed the first result, -> %r, expected %r' % (
                    desc, r3, seq))
    finally:
        iterutils.random = real_random
    if len(seq) >= 5000:
        return out.fail('c15.length', '%s did not stop within 5000 values' % desc)
    if isinstance(count, int) and len(seq) != count:
        return out.fail('c15.length', '%s yielded %d values, expected count=%d' % (desc, len(seq), count))
    base = _ref_sequence(start, stop, factor, len(seq))
    if not jitter:
        if seq != base:
            i = next(j for j in range(len(seq)) if seq[j] != base[j])
            return out.fail('c15.recurrence', '%s: value #%d is %r, expected %r (start, then min(prev*factor, stop)); sequence %s' % (
                desc, i, seq[i], base[i], _sh(seq)))
        for a, b in zip(seq, seq[1:]):
            if b < a:
                return out.fail('c15.decreasing', '%s: %r followed by %r' % (desc, a, b))
        if any(v > stop for v in seq):
            return out.fail('c15.exceeds-stop', '%s yields %r > stop' % (desc, max(seq)))
        if seq and seq[0] != start:
            return out.fail('c15.first', '%s: first value %r' % (desc, seq[0]))
        if count is None:
            if not seq or seq[-1] != stop:
                kind = 'c15.default-count-last-not-stop'
                return out.fail(kind, '%s: default count gives %d values, last %r != stop %r; sequence %s' % (
                    desc, len(seq), seq[-1] if seq else None, stop, _sh(seq)))
    else:
        j = 1.0 if jitter is True else float(jitter)
        if len(used) < len(seq):
            return out.fail('c15.jitter-no-random', '%s: %d values but random() called %d times' % (desc, len(seq), len(used)))
        for i, (v, b) in enumerate(zip(seq, base)):
            lo, hi = sorted((b, b * (1.0 - j)))
            tol = 4 * math.ulp(b) if b else 0.0
            if not (lo - tol <= v <= hi + tol):
                return out.fail('c15.jitter-bounds', '%s: value #%d = %r outside [%r, %r] (un-jittered %r, draw %r)' % (
                    desc, i, v, lo, hi, b, used[i]))
            if used[i] == 0.0 and v != b:
                return out.fail('c15.jitter-zero-draw', '%s: value #%d = %r with draw 0.0, expected un-jittered %r' % (desc, i, v, b))
            exp = b - (b * j * used[i])
            if abs(v - exp) > tol:
                return out.fail('c15.jitter-accumulates', '%s: value #%d = %r, but un-jittered %r with draw %r gives %r (jitter must not '
                                'feed back into the base sequence)' % (desc, i, v, b, used[i], exp))
        if count is None and (len(seq) != len(_default_len_seq(start, stop, factor))):
            return out.fail('c15.length', '%s: default count with jitter gives %d values, without %d' % (
                desc, len(seq), len(_default_len_seq(start, stop, factor))))
    if inter is not None:
        for w in (0, 1, 2):
            if inter[w] != seq[:len(inter[w])]:
                return out.fail('c15.interleaved', '%s: three iterators advanced in turn; iterator %d yielded %s, expected a prefix of %s' % (
                    desc, w, _sh(inter[w]), _sh(seq)))
        out.label('interleaved_iterators')
    growth = sum(1 for a, b in zip(base, base[1:]) if b > a)
    out.nontrivial = (growth >= 2 and bool(base) and base[-1] == stop) or start == 0.0 or case['klass'] == 'targeted'
    if start == 0.0:
        out.label('start_zero')
    if case['klass'] == 'targeted':
        out.label('targeted_power_boundary')
    if jitter:
        out.label('jitter')
    if count is None:
        out.label('default_count')
    if count == 'repeat':
        out.label('repeat')
    return out


def _default_len_seq(start, stop, factor):
    return iterutils.backoff(start, stop, factor=factor)


def _sh(seq):
    return repr(seq) if len(seq) <= 12 else '%r ... %r (%d values)' % (seq[:5], seq[-4:], len(seq))


SUBS = {
    'backoff': Sub('backoff', strat, run, quick=30000, thorough=800000, quick_shards=8),
}
