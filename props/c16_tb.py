"""C16 - traceback text <-> ParsedException round trip; ExceptionInfo vs the interpreter."""
import importlib.util
import linecache
import os
import re
import shutil
import sys
import tempfile
import traceback

from hypothesis import strategies as st

from vlib.core import Outcome, Sub, HarnessError, is_known, case_hash

from boltons import tbutils
from boltons.tbutils import ParsedException, TracebackInfo, ExceptionInfo

LEVEL = 'exploration'
RULE = ('(a) traceback texts generated from the interpreter\'s format: header, 0-8 frames (File "<path>", line <n>, in <func>) each with an '
        'optional source line and - only after a source line - an optional position-marker line, then <Type> or <Type>: <message> with empty, '
        'one-line or multi-line messages; paths with spaces, non-ASCII, <stdin>/<string>/<frozen x>; functions incl. <module>, <lambda>, '
        'Class.method; messages containing ": ", quotes, \'File "\', interior empty lines. Oracle: the generated fields and the text itself. '
        '(b) programs written to a temporary module and imported: chains of depth 1-12 (direct calls, lambdas, comprehensions, methods, '
        'multi-statement and multi-line calls, recursion, eval/exec frames without source) raising builtin, module-level and function-local '
        'exception classes with empty/one-line/multi-line/non-str messages. Oracle: traceback.extract_tb and traceback.format_exception of the '
        'same exception (position-marker lines removed). non-trivial: (a) >=2 frames with different optional-line patterns, or a multi-line / '
        '": "-containing message; (b) depth >= 3. distinct = distinct canonical JSON of the case.')
ASSUMPTIONS = [
    'lines are separated by \\n only and contain no other Unicode line separator; texts carry no trailing newline; a source line never '
    'consists solely of "~", "^" and spaces and never looks like a frame line',
    'SyntaxError, chained exceptions, notes, exception groups and exceptions whose __str__ raises are outside the statement',
    'interpreter output is compared modulo one trailing newline and with position-marker lines removed',
]
KNOWN_REPEAT = 'c16.repeated-frames-not-collapsed'
MARKER_RE = re.compile(r'^\s*[~^]+\s*$')


def _call(f, *a, **kw):
    try:
        return ('ok', f(*a, **kw))
    except Exception as e:      # noqa
        return ('exc', type(e).__name__, str(e)[:300])


# ---------------------------------------------------------------------------
# (a) generated traceback texts

_pathchars = 'abcXYZ019 /\\.-_()\xe9\u4e2d'
_path = st.one_of(
    st.sampled_from(['<stdin>', '<string>', '<frozen importlib._bootstrap>', '/usr/lib/python3.12/site-packages/x y/mod.py',
                     'C:\\Program Files\\app\\m\xe9dia.py', './rel/path.py', 'a", line 5, in b.py', '/tmp/x.py']),
    st.text(alphabet=_pathchars, min_size=1, max_size=20).filter(lambda s: s.strip() == s and s != ''),
)
_func = st.sampled_from(['<module>', '<lambda>', '<listcomp>', '<genexpr>', 'f', 'main', 'Class.method', 'Outer.<locals>.inner', '__init__', '_priv', 'f2'])
_source = st.one_of(
    st.sampled_from(['return f(x)', 'raise ValueError("boom: it")', 'x = 1; y = 2', 'foo(', ')', 'print("File \\"x\\"")', 'a ^ b', 'x ~ y ^^',
                     '1 / 0', 'yield', 'assert x, "msg"', 'lambda: 0', '# comment', 'caf\xe9()', 'd["k"]']),
    st.text(alphabet='abc xyz()=+,.:"\'_01~^', min_size=1, max_size=16),
)
_marker = st.sampled_from(['^^^^', '~~~^^^', '~~^~~', '^', '~~~~~~~^^^^^^', '^^^^^^^^^^^'])
_tname = st.sampled_from(['ValueError', 'KeyError', 'ZeroDivisionError', 'mod.CustomError', 'a.b.c.Err', 'Exception', 'Exception', 'ExceptionGroupError',
                          'pkg.mod.outer.<locals>.Local',
                          'json.decoder.JSONDecodeError', 'E'])
_msgline = st.one_of(
    st.sampled_from(['boom', 'division by zero', "'k'", 'a: b', 'x: y: z', 'File "x", line 3, in y', '  indented', 'caf\xe9 \u4e2d', '"quoted"',
                     "it's", '(1, 2)', ':', 'ends with colon:', 'Traceback (most recent call last):', '~~^^', '0',
                     # message lines that look like the interpreter's own banners
                     'The above exception was the direct cause of the following exception:',
                     'During handling of the above exception, another exception occurred:',
                     '  [Previous line repeated 3 more times]',
                     # last lines that resemble the interpreter's "Exception ... ignored" notices
                     'Exception: SIGHUP ignored: no handler', 'Exceptional input ignored', 'Exception ignored in: <function f>', 'ignored']),
    st.text(alphabet='abc :"\'(),.x1\xe9', min_size=1, max_size=12),
)


def strat_a(tier):
    frame = st.fixed_dictionaries({
        'path': _path, 'lineno': st.integers(1, 99999), 'func': _func,
        'source': st.one_of(st.none(), _source, _source), 'marker': st.one_of(st.none(), st.none(), _marker),
    })
    return st.fixed_dictionaries({
        'sub': st.just('a'),
        'frames': st.lists(frame, max_size=8),
        'type': _tname,
        'msg': st.one_of(st.none(), st.lists(st.one_of(_msgline, _msgline, st.just('')), min_size=1, max_size=4)),
        'bytes': st.booleans(),
    })


_FRAME_LIKE = re.compile(r'^File ".+", line \d+')
BAD_SEPS = '\r\x0b\x0c\x1c\x1d\x1e\x85\u2028\u2029\n'


def run_a(case):
    out = Outcome()
    lines = ['Traceback (most recent call last):']
    exp_frames = []
    patterns = set()
    for fr in case['frames']:
        path, func = fr['path'], fr['func']
        if any(c in path + func for c in BAD_SEPS) or not path or '"' in func:
            raise HarnessError('bad frame fields')
        lines.append('  File "%s", line %d, in %s' % (path, fr['lineno'], func))
        src = fr['source']
        if src is not None:
            src = src.strip()
            if not src or any(c in src for c in BAD_SEPS) or MARKER_RE.match(src) or re.match(r'^[~^ ]*$', src) or _FRAME_LIKE.match(src):
                src = 'pass'
            lines.append('    ' + src)
            if fr['marker'] is not None:
                lines.append('    ' + fr['marker'])
        patterns.add((src is not None, src is not None and fr['marker'] is not None))
        exp_frames.append({'filepath': path, 'lineno': str(fr['lineno']), 'funcname': func, 'source_line': src or ''})
    msg = case['msg']
    if msg is not None:
        msg = [m for m in msg]
        if any(any(c in m for c in BAD_SEPS) for m in msg):
            raise HarnessError('separator in message')
        while msg and msg[-1] == '':
            msg.pop()           # no trailing newline in the text
        if msg and msg[0] == '':
            msg[0] = 'm'        # "Type: " followed by an empty first line is not what the interpreter prints
        if not msg:
            msg = None
    if msg is None:
        lines.append(case['type'])
        exp_msg = ''
    else:
        exp_msg = '\n'.join(msg)
        lines.append('%s: %s' % (case['type'], exp_msg))
    text = '\n'.join(lines)
    no_marker_text = '\n'.join(l for i, l in enumerate(lines) if not (l.startswith('    ') and MARKER_RE.match(l) and i > 0
                                                                      and lines[i - 1].startswith('    ') and not lines[i - 1].startswith('  File')
                                                                      and _is_marker_line(case, lines, i)))
    arg = text.encode('utf-8') if case['bytes'] else text
    r = _call(ParsedException.from_string, arg)
    if r[0] != 'ok':
        return out.fail('c16.a.parse-raises', 'from_string(%r) -> %r' % (text, r))
    pe = r[1]
    got_frames = [dict(f) for f in pe.frames]
    if got_frames != exp_frames:
        i = next((j for j in range(min(len(got_frames), len(exp_frames))) if got_frames[j] != exp_frames[j]), min(len(got_frames), len(exp_frames)))
        return out.fail('c16.a.frames', 'from_string(%r): frame #%d parsed as %r, expected %r (%d vs %d frames)' % (
            text, i, got_frames[i] if i < len(got_frames) else None, exp_frames[i] if i < len(exp_frames) else None, len(got_frames), len(exp_frames)))
    if pe.exc_type != case['type'] or pe.exc_msg != exp_msg:
        return out.fail('c16.a.exception-line', 'from_string(%r): type %r message %r, expected %r / %r' % (text, pe.exc_type, pe.exc_msg, case['type'], exp_msg))
    s = _call(pe.to_string)
    if s != ('ok', no_marker_text):
        return out.fail('c16.a.to_string', 'to_string() of the parsed text gives %r, expected %r' % (s, no_marker_text))
    r2 = _call(lambda: ParsedException.from_string(s[1]))
    if r2[0] != 'ok' or [dict(f) for f in r2[1].frames] != exp_frames or r2[1].exc_type != pe.exc_type or r2[1].exc_msg != pe.exc_msg \
            or r2[1].to_string() != s[1]:
        return out.fail('c16.a.not-fixed-point', 'from_string(to_string()) differs for %r' % (text,))
    d = _call(pe.to_dict)
    if d[0] != 'ok' or d[1].get('exc_type') != case['type'] or d[1].get('exc_msg') != exp_msg or d[1].get('frames') != exp_frames:
        return out.fail('c16.a.to_dict', 'to_dict() -> %r' % (d,))
    out.nontrivial = len(patterns) >= 2 or (msg is not None and (len(msg) > 1 or ': ' in exp_msg))
    if len(patterns) >= 2:
        out.label('mixed_optional_lines')
    if msg and len(msg) > 1:
        out.label('multiline_message')
    if not case['frames']:
        out.label('zero_frames')
    if case['frames'] and case['frames'][-1]['source'] is None:
        out.label('last_frame_without_source')
    if any(f['marker'] and f['source'] is not None for f in case['frames']):
        out.label('marker_lines')
    return out


def _is_marker_line(case, lines, i):
    # marker lines are exactly the ones we emitted after a source line; recompute by position
    idx = 1
    for fr in case['frames']:
        idx += 1            # frame line
        if fr['source'] is not None:
            idx += 1        # source line
            if fr['marker'] is not None:
                if idx == i:
                    return True
                idx += 1
    return False


# ---------------------------------------------------------------------------
# (b) generated programs

_STYLES = ['direct', 'direct', 'lambda', 'listcomp', 'method', 'multistmt', 'multiline', 'recursive', 'eval', 'exec', 'genexpr', 'nested_def',
           'reraise', 'finally', 'with', 'registered', 'registered', 'mutual', 'loader', 'loader']
_EXC = ['ValueError', 'KeyError', 'TypeError', 'ZeroDivisionError', 'Custom', 'CustomStr', 'Local', 'CustomMain', 'CustomPkg', 'IndexError', 'RuntimeError']
_MSG = ['empty', 'one', 'multi', 'nonstr', 'two_args', 'colon', 'unicode', 'none_arg']


def strat_b(tier):
    return st.fixed_dictionaries({
        'sub': st.just('b'),
        'chain': st.lists(st.tuples(st.sampled_from(_STYLES), st.one_of(st.integers(1, 6), st.integers(1, 6), st.sampled_from([990, 1100, 1500]))).map(list),
                          min_size=0, max_size=11),
        'exc': st.sampled_from(_EXC),
        'msg': st.sampled_from(_MSG),
        # > 0: the module file held an EARLIER version (that many extra lines on top) which was imported, raised and was rendered by
        # the traceback module - so linecache holds its lines - before the file was rewritten with the program and reloaded
        'rewritten': st.sampled_from([0, 0, 0, 1, 2, 3]),
    })


def gen_program(case):
    L = ['# generated module', 'class Custom(Exception):', '    pass', '',
         'class CustomStr(Exception):', '    def __str__(self):', "        return 'custom str of ' + repr(self.args)", '',
         'class CustomMain(Exception):', '    pass', "CustomMain.__module__ = '__main__'", '',
         'class CustomPkg(Exception):', '    pass', "CustomPkg.__module__ = 'some.pkg'", '',
         'class Helper:', '    def __init__(self, f):', '        self.f = f', '    def meth(self, x):', '        return self.f(x)', '']
    msg = {'empty': '', 'one': "'boom'", 'multi': "'line one\\nline two\\n\\nline four'", 'nonstr': '42', 'two_args': "'a', 2",
           'colon': "'key: value: more'", 'unicode': "'caf\\xe9 \\u4e2d'", 'none_arg': 'None'}[case['msg']]
    exc = case['exc']
    n = len(case['chain'])
    # innermost
    L.append('def f%d(x):' % n)
    if exc == 'Local':
        L += ['    class Local(Exception):', '        pass', '    raise Local(%s)' % msg]
    elif exc == 'ZeroDivisionError':
        L += ['    return 1 / (x - x)']
    elif exc == 'KeyError' and case['msg'] == 'one':
        L += ["    return {}['k']"]
    elif exc == 'IndexError':
        L += ['    return [][x]']
    else:
        L += ['    raise %s(%s)' % (exc, msg)]
    L.append('')
    for i in range(n - 1, -1, -1):
        style, r = case['chain'][i]
        nxt = 'f%d' % (i + 1)
        L.append('def f%d(x%s):' % (i, ', n=%d' % r if style == 'recursive' else ''))
        if style == 'direct':
            L.append('    return %s(x)' % nxt)
        elif style == 'lambda':
            L.append('    return (lambda: %s(x))()' % nxt)
        elif style == 'listcomp':
            L.append('    return [%s(x) for _ in range(1)][0]' % nxt)
        elif style == 'genexpr':
            L.append('    return list(%s(x) for _ in range(1))[0]' % nxt)
        elif style == 'method':
            L.append('    return Helper(%s).meth(x)' % nxt)
        elif style == 'multistmt':
            L.append('    y = x; z = y; return %s(z)' % nxt)
        elif style == 'multiline':
            L += ['    return %s(' % nxt, '        x,', '    )']
        elif style == 'recursive':
            L += ['    if n:', '        return f%d(x, n - 1)' % i, '    return %s(x)' % nxt]
        elif style == 'eval':
            L.append("    return eval('%s(x)')" % nxt)
        elif style == 'exec':
            L += ["    exec('r = %s(x)')" % nxt, '    return None']
        elif style == 'reraise':
            # after the re-raise the frame's current line is the 'raise', the traceback entry stays at the call
            L += ['    try:', '        return %s(x)' % nxt, '    except Exception:', '        marker = 1', '        raise']
        elif style == 'finally':
            L += ['    try:', '        return %s(x)' % nxt, '    finally:', '        marker = 2', '        marker += 1']
        elif style == 'with':
            L += ['    with open(__file__) as fh:', '        return %s(x)' % nxt]
        elif style == 'mutual':
            # two functions calling each other r times: deep chains whose consecutive frames are never identical
            L[-1] = 'def f%d(x, n=%d):' % (i, r)
            L += ['    if n:', '        return f%d_pong(x, n)' % i, '    return %s(x)' % nxt, '',
                  'def f%d_pong(x, n):' % i, '    return f%d(x, n - 1)' % i]
        elif style == 'registered':
            # code compiled under a pseudo file name whose source IS known to linecache (what doctest, IPython and code
            # generators do): the interpreter shows these source lines
            L += ["    src = 'def relay(x, nxt):\\n    y = x\\n    return nxt(y)\\n'",
                  "    name = '<generated-%d>'" % i,
                  "    import linecache",
                  "    linecache.cache[name] = (len(src), None, src.splitlines(True), name)",
                  "    ns = {}",
                  "    exec(compile(src, name, 'exec'), ns)",
                  "    return ns['relay'](x, %s)" % nxt]
        elif style == 'loader':
            # code whose source is only reachable through the PEP 302 __loader__.get_source() of its globals (no file, no
            # linecache entry, no __spec__): zipimport-style modules and old-style import hooks
            L += ["    src = 'def relay(x, nxt):\\n    y = x\\n    return nxt(y)\\n'",
                  "    class Loader:",
                  "        def get_source(self, name):",
                  "            return src",
                  "    ns = {'__name__': 'loader_only_mod_%d', '__loader__': Loader()}" % i,
                  "    exec(compile(src, 'loader-only-source-%d.py', 'exec'), ns)" % i,
                  "    return ns['relay'](x, %s)" % nxt]
        elif style == 'nested_def':
            L += ['    def inner(y):', '        return %s(y)' % nxt, '    return inner(x)']
        else:
            raise HarnessError('style %r' % style)
        L.append('')
    L += ['def entry():', '    return f0(7)', '']
    return '\n'.join(L)


_TMP = {}


def _tmpdir():
    pid = os.getpid()
    if pid not in _TMP:
        d = tempfile.mkdtemp(prefix='c16b')
        import atexit
        atexit.register(shutil.rmtree, d, True)
        _TMP.clear()
        _TMP[pid] = d
    return _TMP[pid]


def strip_markers(text):
    return '\n'.join(l for l in text.split('\n') if not MARKER_RE.match(l))


def run_b(case):
    out = Outcome()
    src = gen_program(case)
    name = 'c16gen_' + case_hash(case)
    path = os.path.join(_tmpdir(), name + '.py')
    with open(path, 'w', encoding='utf-8') as f:
        f.write(src)
    deep = sum(r * (2 if s_ == 'mutual' else 1) for s_, r in case['chain'] if s_ in ('recursive', 'mutual') and r > 100)
    old_limit = sys.getrecursionlimit()
    if deep:
        sys.setrecursionlimit(max(old_limit, deep + 2000))
    rewritten = case.get('rewritten', 0) if not deep else 0
    spec = importlib.util.spec_from_file_location(name, path)
    mod = importlib.util.module_from_spec(spec)
    sys.modules[name] = mod
    try:
        if rewritten:
            # history: an earlier version of the same file was imported, failed and had its traceback printed (linecache now holds
            # ITS lines under this file name); then the file is rewritten and the module reloaded, as in an edit-reload session.
            with open(path, 'w', encoding='utf-8') as f:
                f.write('# line of an earlier version of this module\n' * rewritten + src)
            spec.loader.exec_module(mod)
            try:
                mod.entry()
            except Exception:
                traceback.format_exception(*sys.exc_info())
            with open(path, 'w', encoding='utf-8') as f:
                f.write(src)
            st_ = os.stat(path)
            os.utime(path, ns=(st_.st_atime_ns, st_.st_mtime_ns + 2 * 10 ** 9))
            out.label('file_rewritten_after_an_earlier_traceback')
        spec.loader.exec_module(mod)
        try:
            mod.entry()
        except Exception:
            et, ev, tb = sys.exc_info()
        else:
            raise HarnessError('generated program did not raise')
        # skip the harness frame (run_b -> entry)
        tb = tb.tb_next
        def forget_loader_sources():
            # source lines obtained through a __loader__ are cached by linecache under the file name: drop them, so that
            # boltons and the traceback module each have to find the source on their own
            for k in list(linecache.cache):
                if k.startswith('loader-only-source-'):
                    del linecache.cache[k]
        desc = 'program with chain %r raising %s(%s)' % ([s for s, _ in case['chain']], case['exc'], case['msg'])
        forget_loader_sources()
        ti = _call(TracebackInfo.from_traceback, tb)
        if ti[0] != 'ok':
            return out.fail('c16.b.from_traceback-raises', '%s: TracebackInfo.from_traceback -> %r' % (desc, ti))
        got_frames = [(cp.module_path, cp.lineno, cp.func_name, str(cp.line).strip() if cp.line is not None else '') for cp in ti[1].frames]
        forget_loader_sources()
        std_frames = [(fs.filename, fs.lineno, fs.name, (fs.line or '').strip()) for fs in traceback.extract_tb(tb)]
        std_text = ''.join(traceback.format_exception(et, ev, tb))
        depth = len(std_frames)
        out.nontrivial = depth >= 3
        forget_loader_sources()
        if got_frames != std_frames:
            i = next((j for j in range(min(len(got_frames), len(std_frames))) if got_frames[j] != std_frames[j]), min(len(got_frames), len(std_frames)))
            return out.fail('c16.b.frames', '%s: frame #%d is %r, traceback.extract_tb gives %r (%d vs %d frames)' % (
                desc, i, got_frames[i] if i < len(got_frames) else None, std_frames[i] if i < len(std_frames) else None,
                len(got_frames), len(std_frames)))
        ei = _call(ExceptionInfo.from_exc_info, et, ev, tb)
        if ei[0] != 'ok':
            return out.fail('c16.b.from_exc_info-raises', '%s: ExceptionInfo.from_exc_info -> %r' % (desc, ei))
        if ei[1].exc_msg != str(ev):
            return out.fail('c16.b.exc_msg', '%s: exc_msg %r, str(value) %r' % (desc, ei[1].exc_msg, str(ev)))
        ef = [(cp.module_path, cp.lineno, cp.func_name, str(cp.line).strip() if cp.line is not None else '') for cp in ei[1].tb_info.frames]
        if ef != std_frames:
            return out.fail('c16.b.frames', '%s: ExceptionInfo frames %r differ from extract_tb %r' % (desc, ef[:3], std_frames[:3]))
        fm = _call(ei[1].get_formatted)
        if fm[0] != 'ok':
            return out.fail('c16.b.get_formatted-raises', '%s: get_formatted -> %r' % (desc, fm))
        want = strip_markers(std_text.rstrip('\n'))
        got = fm[1].rstrip('\n')
        if got != want:
            if 'Previous line repeated' in std_text:
                # the interpreter collapses > 3 identical consecutive frames; boltons lists every frame
                uncollapsed = 'Traceback (most recent call last):\n' + ''.join(
                    '  File "%s", line %d, in %s\n%s' % (f[0], f[1], f[2], '    %s\n' % f[3] if f[3] else '') for f in std_frames)
                last = want.split('\n')[len(want.split('\n')) - len(str(ev).split('\n')) if str(ev) else -1:]
                if got.startswith(uncollapsed.rstrip('\n')) and got.split('\n')[-1] == want.split('\n')[-1]:
                    if is_known(KNOWN_REPEAT):
                        out.excluded.append(KNOWN_REPEAT)
                        got = None
                    else:
                        return out.fail(KNOWN_REPEAT, '%s: the interpreter prints "[Previous line repeated N more times]", get_formatted() lists every frame' % desc)
            if got is not None:
                gl, wl = got.split('\n'), want.split('\n')
                i = next((j for j in range(min(len(gl), len(wl))) if gl[j] != wl[j]), min(len(gl), len(wl)))
                kind = 'c16.b.formatted.exception-line' if i >= len(wl) - max(1, len(str(ev).split('\n'))) else 'c16.b.formatted'
                return out.fail(kind, '%s: get_formatted() line %d is %r, the interpreter prints %r' % (
                    desc, i, gl[i] if i < len(gl) else None, wl[i] if i < len(wl) else None))
        d = _call(ei[1].to_dict)
        if d[0] != 'ok' or d[1].get('exc_msg') != str(ev) or d[1].get('exc_type') != ei[1].exc_type or \
                [(x['module_path'], x['lineno'], x['func_name'], (x['line'] or '').strip()) for x in d[1]['exc_tb']['frames']] != std_frames:
            return out.fail('c16.b.to_dict', '%s: to_dict() inconsistent: %r' % (desc, d if d[0] != 'ok' else {k: v for k, v in d[1].items() if k != 'exc_tb'}))
        # close the loop: parse boltons' own formatted text
        pe = _call(ParsedException.from_string, fm[1])
        if pe[0] != 'ok':
            return out.fail('c16.b.parse-own-output', '%s: from_string(get_formatted()) -> %r' % (desc, pe))
        pf = [(f['filepath'], int(f['lineno']), f['funcname'], f['source_line']) for f in pe[1].frames]
        if pf != std_frames:
            return out.fail('c16.b.parse-own-output', '%s: from_string(get_formatted()) recovers frames %r..., expected %r...' % (desc, pf[:2], std_frames[:2]))
        if any(s in ('eval', 'exec') for s, _ in case['chain']):
            out.label('frame_without_source')
        if any(s == 'loader' for s, _ in case['chain']):
            out.label('source_via___loader__')
        if 'Previous line repeated' in std_text:
            out.label('interpreter_collapses_repeats')
        if depth > 1000:
            out.label('more_than_1000_frames')
        if case['exc'] == 'Local':
            out.label('function_local_class')
        if case['msg'] == 'empty':
            out.label('empty_message')
        out.label('depth>=3' if depth >= 3 else 'depth<3')
        return out
    finally:
        sys.setrecursionlimit(old_limit)
        sys.modules.pop(name, None)
        linecache.checkcache(path)
        try:
            os.unlink(path)
        except OSError:
            pass
        et = ev = tb = None


SUBS = {
    'a': Sub('a', strat_a, run_a, quick=10000, thorough=400000, quick_shards=5),
    'b': Sub('b', strat_b, run_b, quick=2000, thorough=60000, quick_shards=6),
}
