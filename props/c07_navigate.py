"""C07 - URL.navigate == RFC 3986 section 5.2 reference resolution, normalised."""
import copy
import itertools
import re

from hypothesis import strategies as st

from vlib.core import Outcome, Sub, HarnessError, case_hash

from boltons.urlutils import URL

LEVEL = 'exploration'
RULE = ('base URLs (http/https/ftp/unregistered scheme with //; name, IPv4 or IPv6 host; optional userinfo, port, 0-4 dot-free segments incl. '
        'empty ones, trailing slash or empty path, optional query and fragment) x references without authority (empty, #f, ?q, ?q#f, '
        'path-absolute, path-relative over ".", "..", "" and names), absolute references with scheme+host, and chains of 2-3 references. '
        'Oracle: a text-level implementation of RFC 3986 5.2.2-5.2.4 written from the RFC pseudo-code, applied to base.to_text(); plus: no dot '
        'segments in the result, base unchanged, navigate(URL(ref)) == navigate(ref), chaining == step-by-step resolution, normalize() '
        'idempotent. Every run also replays the 37 in-domain examples of RFC 3986 5.4 with the RFC\'s own expected results and enumerates all '
        'reference paths of <=5 segments over {".", "..", "", "x"} against 12 base shapes. non-trivial = the reference path has a dot or empty '
        'segment, or the reference is query-/fragment-only against a base with a query. distinct = distinct canonical JSON of the case.')
ASSUMPTIONS = [
    'references with an authority (//h/...) or with a scheme but no host are outside the statement',
    'present-but-empty query/fragment cannot be represented by URL (documented TODO): queries and fragments are non-empty when present',
    'segment/query/fragment alphabets are those on which rendering is the identity (quoting is C06\'s business); hosts are lower-case',
]

RE_B = re.compile(r'^(([^:/?#]+):)?(//([^/?#]*))?([^?#]*)(\?([^#]*))?(#(.*))?$', re.S)


def _call(f, *a, **kw):
    try:
        return ('ok', f(*a, **kw))
    except Exception as e:      # noqa
        return ('exc', type(e).__name__, str(e)[:200])


# ---------------------------------------------------------------------------
# RFC 3986 section 5.2 on strings

def split_uri(s):
    m = RE_B.match(s)
    return m.group(2), m.group(4), m.group(5), m.group(7), m.group(9)


def remove_dot_segments(path):
    inp, outp = path, ''
    while inp:
        if inp.startswith('../'):
            inp = inp[3:]
        elif inp.startswith('./'):
            inp = inp[2:]
        elif inp.startswith('/./'):
            inp = '/' + inp[3:]
        elif inp == '/.':
            inp = '/'
        elif inp.startswith('/../'):
            inp = '/' + inp[4:]
            outp = outp[:outp.rfind('/')] if '/' in outp else ''
        elif inp == '/..':
            inp = '/'
            outp = outp[:outp.rfind('/')] if '/' in outp else ''
        elif inp in ('.', '..'):
            inp = ''
        else:
            j = inp.find('/', 1)
            if j < 0:
                j = len(inp)
            outp += inp[:j]
            inp = inp[j:]
    return outp


def merge(base_auth, base_path, ref_path):
    if base_auth is not None and base_path == '':
        return '/' + ref_path
    return base_path[:base_path.rfind('/') + 1] + ref_path


def resolve(base, ref):
    bs, ba, bp, bq, bf = split_uri(base)
    rs, ra, rp, rq, rf = split_uri(ref)
    if rs is not None:
        ts, ta, tp, tq = rs, ra, remove_dot_segments(rp), rq
    else:
        if ra is not None:
            ta, tp, tq = ra, remove_dot_segments(rp), rq
        else:
            if rp == '':
                # (RFC 3986 keeps the base path as it is here; the property wants the target normalised in every case,
                #  so a base that still has dot segments gets them removed for same-document references too)
                tp = remove_dot_segments(bp)
                tq = rq if rq is not None else bq
            else:
                if rp.startswith('/'):
                    tp = remove_dot_segments(rp)
                else:
                    tp = remove_dot_segments(merge(ba, bp, rp))
                tq = rq
            ta = ba
        ts = bs
    tf = rf
    out = ''
    if ts is not None:
        out += ts + ':'
    if ta is not None:
        out += '//' + ta
    out += tp
    if tq is not None:
        out += '?' + tq
    if tf is not None:
        out += '#' + tf
    return out


def canon_empty_path(s):
    """an empty path under an authority is the same as '/'"""
    sc, au, pa, qu, fr = split_uri(s)
    if au is not None and pa == '':
        pa = '/'
    if qu == '':
        qu = None       # boltons does not distinguish a present-but-empty query from an absent one (C06); "g?#s" == "g#s" here
    out = ''
    if sc is not None:
        out += sc + ':'
    if au is not None:
        out += '//' + au
    out += pa
    if qu is not None:
        out += '?' + qu
    if fr is not None:
        out += '#' + fr
    return out


# ---------------------------------------------------------------------------
# generators

_name = st.sampled_from(['a', 'b', 'c', 'x', 'g', 'd;p', 'k=v', 'a,b', 'x1', '~u', 'A', 'a.b', '..a', 'a..', '.a', '-', '_',
                         # escaped delimiters (must stay escaped and never act as separators) and a colon inside a segment
                         '%2F', 'a%2Fb', '%2F..', '%3Fx', '%23y', 'c:', 'c:'])
_bseg = st.one_of(_name, _name, _name, _name, _name, _name, st.just(''), st.just(''), st.sampled_from(['.', '..']))   # bases are not always normalised
_rseg = st.one_of(st.sampled_from(['.', '..', '..', '', '.']), _name)
_q = st.sampled_from(['q', 'y', 'k=v', 'a=1&b=2', 'x=y/./z', 'p=..', 'next=http://o.example/p', 'u=a://b/../c', 'r=//h/p',
                      # a repeated key with another key in between (pair order must survive), and an empty query (path?#frag)
                      'k=1&j=2&k=3', 'a=1&b=2&a=3&b=4', ''])
_f = st.sampled_from(['s', 'frag', 's/./x', 'a/../b', 'top', 'http://f.example/g', 'a://b', '//x'])
_host = st.sampled_from(['a', 'host', 'example.com', 'h.example', '10.0.0.1', '127.0.0.1', '[::1]', '[2001:db8::1]'])


def strat_base():
    return st.fixed_dictionaries({
        'scheme': st.sampled_from(['http', 'https', 'ftp', 'http', 'myscheme']),
        'userinfo': st.sampled_from(['', '', '', 'user@', 'user:pw@']),
        'host': _host,
        'port': st.sampled_from(['', '', '', ':8080', ':80', ':21', ':1']),
        'segs': st.lists(_bseg, max_size=4),
        'trailing': st.booleans(),
        'query': st.one_of(st.none(), _q),
        'fragment': st.one_of(st.none(), _f),
    })


def base_text(b):
    path = ''.join('/' + s for s in b['segs'])
    if b['segs'] and b['trailing']:
        path += '/'
    elif not b['segs'] and b['trailing']:
        path = '/'
    t = '%s://%s%s%s%s' % (b['scheme'], b['userinfo'], b['host'], b['port'], path)
    if b['query']:
        t += '?' + b['query']
    if b['fragment']:
        t += '#' + b['fragment']
    return t


def strat_ref():
    return st.fixed_dictionaries({
        'kind': st.sampled_from(['empty', 'frag', 'query', 'query', 'abs', 'abs', 'rel', 'rel', 'rel', 'rel', 'full']),
        'segs': st.lists(_rseg, max_size=6),
        'trailing': st.booleans(),
        'query': st.one_of(st.none(), st.none(), _q),
        'fragment': st.one_of(st.none(), st.none(), _f),
        'full': st.sampled_from(['http://other/x/y?z#w', 'https://h2', 'ftp://h3/a/../b', 'http://[::2]/p']),
    })


def ref_text(r):
    kind = r['kind']
    if kind == 'full':
        return r['full']
    q = '?' + r['query'] if r['query'] is not None else ''
    f = '#' + r['fragment'] if r['fragment'] else ''
    if kind == 'empty':
        return ''
    if kind == 'frag':
        return '#' + (r['fragment'] or 's')
    if kind == 'query':
        return '?' + (r['query'] or 'y') + f
    segs = list(r['segs'])
    if kind == 'abs':
        path = '/' + '/'.join(segs) + ('/' if r['trailing'] and segs else '')
        if path.startswith('//'):
            path = '/x' + path[1:]       # "//..." would be an authority
        return path + q + f
    # relative path: non-empty, first segment without ':' (none of ours has one), must not start with '/'
    if not segs:
        segs = ['g']
    if segs[0] == '':
        segs[0] = '.'
    if ':' in segs[0]:
        segs.insert(0, '.')         # RFC 3986 4.2: the first segment of a relative-path reference cannot contain a colon
    path = '/'.join(segs) + ('/' if r['trailing'] else '')
    return path + q + f


def strat(tier):
    return st.fixed_dictionaries({
        'sub': st.just('nav'),
        'base': strat_base(),
        'refs': st.lists(strat_ref(), min_size=1, max_size=3),
        'norm_parts': st.lists(st.one_of(_rseg, _rseg, st.just('')), max_size=7),
    })


def check_navigate(bt, refs, out):
    """returns False after recording a failure"""
    r = _call(URL, bt)
    if r[0] != 'ok':
        raise HarnessError('base %r does not parse: %r' % (bt, r))
    base = r[1]
    base_before = base.to_text()
    base_copy = copy.deepcopy(base)
    cur_text = base_before
    cur = base
    for ref in refs:
        step_base_text = cur.to_text()
        exp = resolve(step_base_text, ref)
        n = _call(cur.navigate, ref)
        if n[0] != 'ok':
            out.fail('c07.navigate-raises', 'URL(%r).navigate(%r) -> %r' % (step_base_text, ref, n))
            return False
        got = n[1].to_text()
        if canon_empty_path(got) != canon_empty_path(exp):
            kind = 'c07.resolution'
            if '[' in exp.split('/')[2] and '[' not in got:
                kind = 'c07.ipv6-brackets-lost'
            out.fail(kind, 'URL(%r).navigate(%r) -> %r, RFC 3986 5.2 gives %r' % (step_base_text, ref, got, exp))
            return False
        parts = list(n[1].path_parts)
        if any(p in ('.', '..') for p in parts):
            out.fail('c07.dot-segments-left', 'URL(%r).navigate(%r) -> %r still has dot segments' % (step_base_text, ref, got))
            return False
        if n[1].host and n[1].path and not n[1].path.startswith('/'):
            out.fail('c07.unrooted', 'URL(%r).navigate(%r) -> path %r does not start at the root' % (step_base_text, ref, n[1].path))
            return False
        n2 = _call(lambda: cur.navigate(URL(ref)))
        if n2[0] != 'ok' or n2[1].to_text() != got:
            out.fail('c07.url-object-ref', 'navigate(URL(%r)) from %r -> %r, navigate(%r) -> %r' % (
                ref, step_base_text, n2[1].to_text() if n2[0] == 'ok' else n2, ref, got))
            return False
        if cur.to_text() != step_base_text:
            out.fail('c07.base-modified', 'navigate(%r) changed its base from %r to %r' % (ref, step_base_text, cur.to_text()))
            return False
        # the result is a NEW url: editing it in place must not reach back into the base or into a reference given as a URL object
        ref_obj = URL(ref)
        ref_before = ref_obj.to_text()
        n5 = _call(cur.navigate, ref_obj)
        if n5[0] == 'ok':
            n5[1].query_params.add('zz_edit', '1')
            if n5[1].query_params:
                k0 = list(n5[1].query_params.keys())[0]
                n5[1].query_params[k0] = 'edited'
            n5[1].path_parts = tuple(list(n5[1].path_parts) + ['edited'])
            n5[1].fragment = 'edited'
            if cur.to_text() != step_base_text:
                out.fail('c07.base-modified.via-result', 'from %r: the URL returned by navigate(%r) was edited in place (query_params, path_parts, fragment) and the '
                         'base changed to %r' % (step_base_text, ref, cur.to_text()))
                return False
            if ref_obj.to_text() != ref_before:
                out.fail('c07.reference-modified.via-result', 'from %r: the URL returned by navigate(URL(%r)) was edited in place and the reference object '
                         'changed to %r' % (step_base_text, ref, ref_obj.to_text()))
                return False
        # references given as URL objects whose query was put together / taken apart through query_params
        # (what counts is what the reference *is*, i.e. its to_text(), not how it was parsed)
        ru = URL(ref)
        if ru.query_params:
            noq = ref.split('#')[0].split('?')[0] + ('#' + ref.split('#', 1)[1] if '#' in ref else '')
            built = URL(noq)
            for k, v in ru.query_params.items(multi=True):
                built.query_params.add(k, v)
            if built.to_text() == ru.to_text():
                n3 = _call(lambda: cur.navigate(built))
                if n3[0] != 'ok' or n3[1].to_text() != got:
                    out.fail('c07.url-object-ref.built-query', 'from %r: navigate(<URL %r with the query added through query_params>) -> %r, navigate(%r) -> %r' % (
                        step_base_text, noq, n3[1].to_text() if n3[0] == 'ok' else n3, ref, got))
                    return False
            emptied = URL(ref)
            emptied.query_params.clear()
            if emptied.to_text() == noq:
                want = _call(lambda: cur.navigate(noq))
                n4 = _call(lambda: cur.navigate(emptied))
                if want[0] == 'ok' and (n4[0] != 'ok' or n4[1].to_text() != want[1].to_text()):
                    out.fail('c07.url-object-ref.emptied-query', 'from %r: navigate(<URL %r with its query_params cleared>) -> %r, navigate(%r) -> %r' % (
                        step_base_text, ref, n4[1].to_text() if n4[0] == 'ok' else n4, noq, want[1].to_text()))
                    return False
        cur = n[1]
    if base.to_text() != base_before or not (base == base_copy):
        out.fail('c07.base-modified', 'base %r changed to %r after navigate(%r)' % (base_before, base.to_text(), refs))
        return False
    return True


def run(case):
    out = Outcome()
    bt = base_text(case['base'])
    refs = [ref_text(r) for r in case['refs']]
    if not check_navigate(bt, refs, out):
        return out
    # normalize idempotent for arbitrary path_parts
    u = URL(bt)
    u.path_parts = tuple([''] + list(case['norm_parts']))
    r1 = _call(u.normalize)
    once = tuple(u.path_parts)
    t_once = u.to_text()
    r2 = _call(u.normalize)
    if r1[0] != 'ok' or r2[0] != 'ok':
        return out.fail('c07.normalize-raises', 'normalize() on path_parts %r -> %r / %r' % (case['norm_parts'], r1, r2))
    if tuple(u.path_parts) != once or u.to_text() != t_once:
        return out.fail('c07.normalize-not-idempotent', 'normalize() of path_parts %r gives %r, a second normalize() gives %r' % (
            ['', ] + list(case['norm_parts']), once, tuple(u.path_parts)))
    # the same base object used again after its path was changed through the public attributes: the result may only depend on
    # what the base *is now* (its to_text()), never on an earlier navigate() from the same object
    kinds = ['path_parts', 'normalize', 'path', 'host']
    qkinds = ['query_add', 'query_clear', 'query_del', 'query_set', 'fragment']
    plan = [(ref, kinds[(len(case['norm_parts']) + mi) % len(kinds)]) for mi, ref in enumerate(refs)]
    # same-document and query-only references after the base's query / fragment was edited in place
    plan += [(ref, qkinds[(len(case['norm_parts']) + len(refs) + j) % len(qkinds)]) for j, ref in enumerate(['#zz', '', '?n=1', 'x'])]
    for ref, how in plan:
        b = URL(bt)
        w = _call(b.navigate, ref)
        if how == 'query_add':
            b.query_params.add('added', '1')
        elif how == 'query_clear':
            b.query_params.clear()
        elif how == 'query_del':
            if len(b.query_params):
                del b.query_params[list(b.query_params.keys())[0]]
            else:
                b.query_params['only'] = 'v'
        elif how == 'query_set':
            b.query_params[(list(b.query_params.keys()) or ['k'])[0]] = 'set'
        elif how == 'fragment':
            b.fragment = 'newfrag'
        elif how == 'path_parts':
            b.path_parts = tuple([''] + [p for p in case['norm_parts'] if p not in ('.', '..')] + ['zz', 'last'])
        elif how == 'normalize':
            b.path_parts = tuple(list(b.path_parts) + ['sub', '..'])
            b.normalize()
        elif how == 'path':
            b.path = '/other/dir/file'
        else:
            b.host = 'changed.example'
        now = b.to_text()
        a1 = _call(b.navigate, ref)
        a2 = _call(lambda: URL(now).navigate(ref))
        if a1[0] != a2[0] or (a1[0] == 'ok' and a1[1].to_text() != a2[1].to_text()):
            return out.fail('c07.stale-base-state', 'base %r, navigate(%r), then base changed via %s to %r: navigate(%r) on the same object -> %r, '
                            'on a fresh URL(%r) -> %r' % (bt, ref, how, now, ref, a1[1].to_text() if a1[0] == 'ok' else a1, now,
                                                          a2[1].to_text() if a2[0] == 'ok' else a2))
    nontriv = False
    for r, text in zip(case['refs'], refs):
        if r['kind'] in ('abs', 'rel') and any(s in ('.', '..', '') for s in text.split('?')[0].split('#')[0].split('/')[1 if text.startswith('/') else 0:]):
            nontriv = True
        if r['kind'] in ('query', 'frag', 'empty') and case['base']['query']:
            nontriv = True
    out.nontrivial = nontriv
    if '[' in case['base']['host']:
        out.label('ipv6_base')
    if not case['base']['segs'] and not case['base']['trailing']:
        out.label('empty_base_path')
    if len(refs) > 1:
        out.label('chained')
    for r in case['refs']:
        out.label('ref:' + r['kind'])
    return out


# ---------------------------------------------------------------------------
# fixed RFC examples + exhaustive small paths

RFC_BASE = 'http://a/b/c/d;p?q'
RFC_EXAMPLES = [
    ('g', 'http://a/b/c/g'), ('./g', 'http://a/b/c/g'), ('g/', 'http://a/b/c/g/'), ('/g', 'http://a/g'),
    ('?y', 'http://a/b/c/d;p?y'), ('g?y', 'http://a/b/c/g?y'), ('#s', 'http://a/b/c/d;p?q#s'), ('g#s', 'http://a/b/c/g#s'),
    ('g?y#s', 'http://a/b/c/g?y#s'), (';x', 'http://a/b/c/;x'), ('g;x', 'http://a/b/c/g;x'), ('g;x?y#s', 'http://a/b/c/g;x?y#s'),
    ('', 'http://a/b/c/d;p?q'), ('.', 'http://a/b/c/'), ('./', 'http://a/b/c/'), ('..', 'http://a/b/'), ('../', 'http://a/b/'),
    ('../g', 'http://a/b/g'), ('../..', 'http://a/'), ('../../', 'http://a/'), ('../../g', 'http://a/g'),
    ('../../../g', 'http://a/g'), ('../../../../g', 'http://a/g'), ('/./g', 'http://a/g'), ('/../g', 'http://a/g'),
    ('g.', 'http://a/b/c/g.'), ('.g', 'http://a/b/c/.g'), ('g..', 'http://a/b/c/g..'), ('..g', 'http://a/b/c/..g'),
    ('./../g', 'http://a/b/g'), ('./g/.', 'http://a/b/c/g/'), ('g/./h', 'http://a/b/c/g/h'), ('g/../h', 'http://a/b/c/h'),
    ('g;x=1/./y', 'http://a/b/c/g;x=1/y'), ('g;x=1/../y', 'http://a/b/c/y'),
    ('g?y/./x', 'http://a/b/c/g?y/./x'), ('g?y/../x', 'http://a/b/c/g?y/../x'),
    ('g#s/./x', 'http://a/b/c/g#s/./x'), ('g#s/../x', 'http://a/b/c/g#s/../x'),
]
BASE_SHAPES = ['http://h', 'http://h/', 'http://h/a', 'http://h/a/', 'http://h/a/b', 'http://h/a/b/', 'http://h/a//b', 'http://h//',
               'ftp://u@h:2121/a/b?q=1#f', 'myscheme://h/a/b/c', 'http://[::1]/a/b', 'http://10.0.0.1/x/']


def extra(tier, seed, deadline):
    n = 0
    nt = set()
    failures = []
    labels = {}
    for ref, want in RFC_EXAMPLES:
        n += 1
        nt.add('rfc' + ref)
        mine = resolve(RFC_BASE, ref)
        if mine != want:
            raise HarnessError('reference resolver disagrees with RFC 3986 5.4: %r -> %r, RFC %r' % (ref, mine, want))
        r = _call(lambda: URL(RFC_BASE).navigate(ref).to_text())
        if r != ('ok', want) and len(failures) < 4:
            failures.append(('nav', 'c07.rfc-example', {'sub': 'nav', 'base': None, 'rfc_ref': ref}, 'RFC 3986 5.4: %r resolved against %r must be %r, navigate gives %r' % (ref, RFC_BASE, want, r)))
    labels['nav.rfc_5_4_examples'] = len(RFC_EXAMPLES)
    alphabet = ['.', '..', '', 'x']
    maxlen = 5
    m = 0
    for bt in BASE_SHAPES:
        for ln in range(0, maxlen + 1):
            for segs in itertools.product(alphabet, repeat=ln):
                for absolute in (False, True):
                    if absolute:
                        ref = '/' + '/'.join(segs)
                        if ref.startswith('//'):
                            continue
                    else:
                        if not segs or segs[0] == '':
                            continue
                        ref = '/'.join(segs)
                    out = Outcome()
                    n += 1
                    m += 1
                    nt.add('x%s|%s' % (bt, ref))
                    if not check_navigate(bt, [ref], out) and len(failures) < 8:
                        if not any(f[1] == out.kind for f in failures):
                            failures.append(('nav', out.kind, {'sub': 'nav', 'base': None, 'fixed_base': bt, 'fixed_ref': ref}, out.detail))
    labels['nav.exhaustive_small_paths'] = m
    return {'evaluations': n, 'nontrivial_hashes': nt, 'failures': failures, 'labels': labels,
            'samples': [{'sub': 'nav-exhaustive', 'case': {'bases': BASE_SHAPES, 'alphabet': alphabet, 'max_segments': maxlen}}],
            'info': {'exhaustive_small_paths': {'bases': len(BASE_SHAPES), 'alphabet': alphabet, 'max_segments': maxlen, 'cases': m, 'exhaustive': True},
                     'rfc_examples': len(RFC_EXAMPLES)}}


def run_fixed(case):
    """replay support for failures found by the fixed/exhaustive campaigns"""
    out = Outcome()
    if case.get('rfc_ref') is not None:
        want = dict(RFC_EXAMPLES)[case['rfc_ref']]
        r = _call(lambda: URL(RFC_BASE).navigate(case['rfc_ref']).to_text())
        if r != ('ok', want):
            out.fail('c07.rfc-example', 'RFC 3986 5.4: %r must resolve to %r, navigate gives %r' % (case['rfc_ref'], want, r))
        return out
    check_navigate(case['fixed_base'], [case['fixed_ref']], out)
    return out


def run_any(case):
    if case.get('base') is None:
        return run_fixed(case)
    return run(case)


SUBS = {
    'nav': Sub('nav', strat, run_any, quick=8000, thorough=320000, quick_shards=8),
}
