"""C18 - spooled files: memory == disk == io; MultiFileReader concatenates."""
import io
import os
import tempfile

from hypothesis import strategies as st

from vlib.core import Outcome, Sub, HarnessError, is_known, b2j, j2b

from boltons import ioutils
from boltons.ioutils import SpooledBytesIO, SpooledStringIO, MultiFileReader

LEVEL = 'exploration'
RULE = ('one history (<=25 ops: appending writes, read(n)/read(), readline, readlines, next/iteration, seek, tell, getvalue, len, '
        'rollover) is run on io.BytesIO/io.StringIO and on spooled files with max_size in {1, 2, len/2, len, len+1, 10^6} (rolled '
        'from the first write / mid-history / never); return value, tell() and getvalue() of every variant are compared with the '
        'io object after every step. MultiFileReader: a content split into 1-5 member files (BytesIO/StringIO/real files, empty '
        'members allowed) read with sized/unsized reads and seek(0). non-trivial: a read after a position-changing or querying op '
        'with both rolled and un-rolled variants alive; MultiFileReader: a sized read spanning >=2 members or a read after seek(0). '
        'distinct = distinct canonical JSON of the case.')
ASSUMPTIONS = [
    'writes are appending (the interpreter seeks to the end first); seek targets lie inside the data',
    'SpooledStringIO: readline(size) is not generated (size is a read hint in the codecs line reader); end-relative seeks only as seek(0, 2)',
    'readline(0) is not generated',
    'io.StringIO positions are code-point indices for the generated histories',
]

KNOWN_SEPS = 'c18.stringio-line-separators'
OTHER_SEPS = ['\r', '\x0b', '\x0c', '\x1c', '\x1d', '\x1e', '\x85', '\u2028', '\u2029']


def _call(f, *a, **kw):
    try:
        return ('ok', f(*a, **kw))
    except StopIteration:
        return ('exc', 'StopIteration', '')
    except Exception as e:      # noqa
        return ('exc', type(e).__name__, str(e)[:200])


# ---------------------------------------------------------------------------
# spooled files

_tpiece = st.one_of(
    st.sampled_from(['a', 'b', '\n', '\n', '\xe9', '\u20ac', '\U0001f600', 'ab', 'line\n', '\xe9\u20ac\n',
                     # the first and last code points of every UTF-8 length (lead/continuation bytes 0x80, 0xBF, 0xC2, 0xDF, 0xEF, 0xF4)
                     '\x80', '\xbf', '\xff', '\u07ff', '\u0800', '\uffff', '\U00010000', '\U0010ffff', '\U0001f37f']),
    st.text(alphabet='ab\n\xe9\u20ac\U0001f600\xbf\u07ff\uffff', max_size=6),
)
_tpiece_seps = st.one_of(_tpiece, st.sampled_from(['\r', '\r\n', '\x0b', '\x85', '\u2028', 'a\rb', '\x1c']))
_bpiece = st.one_of(
    st.sampled_from(['a', 'b', '\n', '\n', '\r', '\r\n', '\x00', '\xff', 'line\n', '\xc3']),
    st.text(alphabet=''.join(map(chr, range(256))), max_size=6),
    st.text(alphabet='ab\n\r', max_size=8),
)


def _ops(kind, seps):
    piece = _bpiece if kind == 'bytes' else (_tpiece_seps if seps else _tpiece)
    chunk = st.lists(piece, min_size=0, max_size=5)
    frac = st.integers(0, 16)
    ops = [
        st.tuples(st.just('write'), chunk, st.sampled_from(['len', 'end'])),
        st.tuples(st.just('write'), chunk, st.sampled_from(['len', 'end'])),
        st.tuples(st.just('write'), chunk, st.sampled_from(['len', 'end'])),
        st.tuples(st.just('writelines'), st.lists(piece, max_size=5), st.sampled_from(['list', 'gen_tell', 'gen_tell', 'fail_midway'])),
        st.tuples(st.just('read'), st.sampled_from([None, -1, 1, 2, 3, 5, 100])),
        st.tuples(st.just('read'), st.sampled_from([1, 2, 3])),
        st.tuples(st.just('readline'), st.just(None)),
        st.tuples(st.just('readlines')),
        st.tuples(st.just('next')),
        st.tuples(st.just('iterate')),
        # an iteration that is left before the end (break out of a for loop / an iterator stepped by hand and dropped): the next
        # operation continues right after the last line taken, without any seek in between
        st.tuples(st.just('iter_partial'), st.integers(1, 3), st.sampled_from(['for_break', 'by_hand'])),
        st.tuples(st.just('iter_partial'), st.integers(1, 2), st.sampled_from(['for_break', 'by_hand'])),
        # one write repeated (tens to hundreds of characters in the file), and many absolute seeks to distinct targets in a
        # non-monotonic order on the same object, then a read
        st.tuples(st.just('write'), chunk, st.sampled_from(['len', 'end']), st.sampled_from([8, 20, 40])),
        st.tuples(st.just('seek_many'), st.sampled_from([3, 5, 7, 11, 13]), st.sampled_from([12, 40, 70])),
        st.tuples(st.just('seek'), frac),
        st.tuples(st.just('seek'), frac),
        st.tuples(st.just('seek'), frac),
        st.tuples(st.just('seek'), st.sampled_from([0, 0, 1, 2, 8])),
        st.tuples(st.just('seek'), st.sampled_from([0, 0, 1, 2, 8])),
        st.tuples(st.just('seek_cur0')),
        st.tuples(st.just('seek_end0')),
        st.tuples(st.just('tell')),
        st.tuples(st.just('getvalue')),
        st.tuples(st.just('len'), st.sampled_from(['len()', '.len'])),
        st.tuples(st.just('len'), st.sampled_from(['len()', '.len'])),
        st.tuples(st.just('rollover')),
    ]
    if kind == 'bytes':
        ops.append(st.tuples(st.just('readline'), st.sampled_from([1, 2, 5, 100, -1])))
        ops.append(st.tuples(st.just('seek_end'), st.integers(0, 6)))
    return st.one_of(*ops).map(list)


def strat_spool(tier):
    n = 18 if tier == 'quick' else 25

    @st.composite
    def case(draw):
        kind = draw(st.sampled_from(['bytes', 'text']))
        seps = draw(st.sampled_from([False, False, True])) if kind == 'text' else False
        ops = draw(st.lists(_ops(kind, seps), max_size=n))
        if draw(st.integers(0, 19)) == 0:
            # scale class: more than 64 KiB / 128 KiB of (multi-byte) data in one write, buffered in memory, then rolled over
            unit = draw(st.sampled_from([['\u20ac', '\xe9'], ['\u20ac', '\xe9'], ['a', '\u20ac', '\n'], ['\U0001f600', 'b']])) if kind == 'text' else \
                draw(st.sampled_from([['a', 'b', '\n'], ['\xff', '\x00', 'c']]))
            nbytes = draw(st.sampled_from([65535, 65536, 65537, 70001, 131073, 200003]))
            ulen = len(''.join(unit).encode('utf-8')) if kind == 'text' else len(unit)
            big = ['write', unit, 'end', nbytes // ulen + 1]
            k = draw(st.integers(0, min(3, len(ops))))
            ops = ops[:k] + [big] + draw(st.lists(st.sampled_from([['rollover'], ['rollover'], ['tell'], ['seek', 8], ['read', 5], ['getvalue']]).map(list),
                                                  min_size=1, max_size=3)) + ops[k:][:6]
        return {'sub': 'spool', 'kind': kind, 'seps': seps,
                # how much is observed after every step: observing (getvalue seeks and flushes) can mask defects
                'observe': draw(st.sampled_from(['all', 'all', 'tell', 'none'])),
                'ops': ops}
    return case()


def _codecs_readline(rem):
    parts = rem.splitlines(True)
    return parts[0] if parts else ''


def _codecs_readlines(rem):
    return [p.decode('utf-8') for p in rem.encode('utf-8').splitlines(True)]


def run_spool(case):
    out = Outcome()
    kind = case['kind']
    conv = (lambda pieces: j2b(''.join(pieces))) if kind == 'bytes' else (lambda pieces: ''.join(pieces))
    def wdata(op):
        # ['write', pieces, how] or ['write', pieces, how, repetitions] (scale class: one write of tens of thousands of characters)
        return conv(op[1]) * (op[3] if len(op) > 3 else 1)
    def wl(op):
        return conv(op[1]) if op[0] == 'writelines' else wdata(op)
    total = sum(len(wl(op)) for op in case['ops'] if op[0] in ('write', 'writelines'))
    if kind == 'text':
        total_b = sum(len(wl(op).encode('utf-8')) for op in case['ops'] if op[0] in ('write', 'writelines'))
    else:
        total_b = total
    sizes = sorted({1, 2, max(1, total_b // 2), max(1, total_b), total_b + 1, 10 ** 6})
    cls = SpooledBytesIO if kind == 'bytes' else SpooledStringIO
    ref = io.BytesIO() if kind == 'bytes' else io.StringIO(newline='\n')
    tmpdir = tempfile.mkdtemp(prefix='c18s')
    variants = []
    try:
        for m in sizes:
            r = _call(cls, max_size=m, dir=tmpdir)
            if r[0] != 'ok':
                return out.fail('c18.ctor', '%s(max_size=%d) -> %r' % (cls.__name__, m, r))
            variants.append((m, r[1]))
        observe = case.get('observe', 'all')
        moved = False        # a position-changing / querying op happened
        read_after = False
        for step, op in enumerate(case['ops']):
            name = op[0]
            where = 'step %d %r' % (step, op)
            model = ref.getvalue()
            pos = ref.tell()
            compare_ret = True
            line_op = False
            if name == 'write':
                data = wdata(op)

                def do(f, data=data, how=op[2], n=len(model)):
                    if how == 'len':
                        f.seek(n)
                    else:
                        f.seek(0, 2)
                    f.write(data)
                compare_ret = False
            elif name == 'writelines':
                # appended with writelines(): from a list, from a lazy generator that looks at tell() between lines (the
                # positions it sees are compared), or from a generator that fails half-way (what was written so far stays)
                lines = [conv([p_]) for p_ in op[1]]

                def do(f, lines=lines, mode=op[2]):
                    f.seek(0, 2)
                    seen = []

                    def gen():
                        for i, l in enumerate(lines):
                            if mode == 'gen_tell':
                                seen.append(f.tell())
                            if mode == 'fail_midway' and i == len(lines) // 2:
                                raise ZeroDivisionError('the line source failed')
                            yield l
                    f.writelines(list(lines) if mode == 'list' else gen())
                    return seen
            elif name == 'read':
                n = op[1]
                do = (lambda f: f.read()) if n is None else (lambda f, n=n: f.read(n))
                read_after = read_after or moved
            elif name == 'readline':
                n = op[1]
                do = (lambda f: f.readline()) if n is None else (lambda f, n=n: f.readline(n))
                line_op = True
                read_after = read_after or moved
            elif name == 'readlines':
                do = lambda f: f.readlines()    # noqa
                line_op = True
                read_after = read_after or moved
            elif name == 'next':
                do = lambda f: next(f)          # noqa
                line_op = True
                read_after = read_after or moved
            elif name == 'iterate':
                do = lambda f: [l for l in f]   # noqa
                line_op = True
                read_after = read_after or moved
            elif name == 'iter_partial':
                def do(f, k=op[1], how=op[2]):
                    taken = []
                    if how == 'for_break':
                        for l in f:
                            taken.append(l)
                            if len(taken) >= k:
                                break
                    else:
                        it = iter(f)
                        for _ in range(k):
                            l = next(it, None)
                            if l is None:
                                break
                            taken.append(l)
                    return taken
                line_op = True
                read_after = read_after or moved
            elif name == 'seek_many':
                targets = []
                for i in range(1, op[2] + 1):
                    t = (i * op[1]) % (len(model) + 1)
                    if t not in targets:
                        targets.append(t)

                def do(f, targets=targets):
                    seen = []
                    for t in targets:
                        f.seek(t)
                        seen.append(f.tell())
                    return seen, f.read(4)
                moved = True
                if len(targets) > 32:
                    out.label('more_than_32_distinct_seek_targets')
            elif name == 'seek':
                p = (len(model) * op[1]) // 16
                do = lambda f, p=p: f.seek(p)   # noqa
                moved = True
            elif name == 'seek_cur0':
                do = lambda f: f.seek(0, 1)     # noqa
                moved = True
            elif name == 'seek_end0':
                do = lambda f: f.seek(0, 2)     # noqa
                moved = True
            elif name == 'seek_end':
                k = min(op[1], len(model))
                do = lambda f, k=k: f.seek(-k, 2)   # noqa
                moved = True
            elif name == 'tell':
                do = lambda f: f.tell()         # noqa
            elif name == 'getvalue':
                do = lambda f: f.getvalue()     # noqa
                moved = True
            elif name == 'len':
                if op[1] == 'len()':
                    do = lambda f: len(f) if not isinstance(f, (io.BytesIO, io.StringIO)) else len(f.getvalue())   # noqa
                else:
                    do = lambda f: f.len if not isinstance(f, (io.BytesIO, io.StringIO)) else len(f.getvalue())     # noqa
                moved = True
            elif name == 'rollover':
                do = lambda f: f.rollover() if hasattr(f, 'rollover') else None     # noqa
                compare_ret = False
            else:
                raise HarnessError('op %r' % (op,))
            exp = _call(do, ref)
            exp_state = (ref.tell(), ref.getvalue())
            results = []
            last = step == len(case['ops']) - 1
            for m, f in variants:
                got = _call(do, f)
                state = (_call(f.tell) if (observe != 'none' or last) else ('ok', exp_state[0]),
                         _call(f.getvalue) if (observe == 'all' or last) else ('ok', exp_state[1]))
                results.append((m, f, got, state))
            # classify
            for m, f, got, state in results:
                rolled = getattr(f, '_rolled', None)
                desc = '%s(max_size=%d, rolled=%r)' % (cls.__name__, m, rolled)
                mismatch = None
                if compare_ret and got[:2] != exp[:2]:
                    mismatch = ('return.' + name, '%s: %s returned %r, io gives %r' % (where, desc, got, exp))
                elif not compare_ret and got[0] != 'ok':
                    mismatch = ('return.' + name, '%s: %s raised %r' % (where, desc, got))
                elif state[0] != ('ok', exp_state[0]):
                    mismatch = ('tell', '%s: %s tell() = %r afterwards, io gives %r' % (where, desc, state[0], exp_state[0]))
                elif state[1] != ('ok', exp_state[1]):
                    mismatch = ('getvalue', '%s: %s getvalue() = %r afterwards, io gives %r' % (where, desc, state[1], exp_state[1]))
                if mismatch is None:
                    continue
                detail = mismatch[1] + '; content before the step %r, position %r' % (model, pos)
                if kind == 'text' and line_op and any(sp in model[pos:] for sp in OTHER_SEPS):
                    # known: line reading is delegated to codecs (splits at every str.splitlines boundary; readlines at \r)
                    rem = model[pos:]
                    if name in ('readline', 'next'):
                        codecs_like = got[0] == 'ok' and got[1] == _codecs_readline(rem)
                    elif name == 'iter_partial':
                        want, r_ = [], rem
                        for _ in range(op[1]):
                            l_ = _codecs_readline(r_)
                            if not l_:
                                break
                            want.append(l_)
                            r_ = r_[len(l_):]
                        codecs_like = got[0] == 'ok' and got[1] == want
                    elif name == 'readlines':
                        codecs_like = got[0] == 'ok' and got[1] == _codecs_readlines(rem)
                    else:
                        codecs_like = got[0] == 'ok' and isinstance(got[1], list) and ''.join(got[1]) == rem
                    agree = all(g[:2] == got[:2] for _, _, g, _ in results)
                    if codecs_like and agree:
                        if is_known(KNOWN_SEPS):
                            out.excluded.append(KNOWN_SEPS)
                            out.label('cut_at_known_line_separator_finding')
                            return out      # history cut here: positions have diverged from io
                        return out.fail(KNOWN_SEPS, detail)
                return out.fail('c18.' + mismatch[0], detail)
        rolled_flags = {bool(getattr(f, '_rolled', False)) for _, f in variants}
        out.nontrivial = read_after and len(rolled_flags) == 2
        if out.nontrivial:
            out.label('read_after_move_rolled_and_unrolled')
        out.label(kind)
        if total_b > 65536:
            out.label('single_write_over_64KiB')
        if case.get('seps'):
            out.label('text_with_other_separators')
        return out
    finally:
        for _, f in variants:
            try:
                f.close()
            except Exception:
                pass
        try:
            os.rmdir(tmpdir)
        except OSError:
            import shutil
            shutil.rmtree(tmpdir, ignore_errors=True)


# ---------------------------------------------------------------------------
# MultiFileReader

def _abbr(res):
    if res[0] == 'ok' and isinstance(res[1], (str, bytes)) and len(res[1]) > 200:
        return '(ok, <%d> %r...%r)' % (len(res[1]), res[1][:20], res[1][-20:])
    return repr(res)


def strat_mfr(tier):
    @st.composite
    def case(draw):
        kind = draw(st.sampled_from(['bytes', 'text']))
        piece = _bpiece if kind == 'bytes' else _tpiece
        members = draw(st.lists(st.lists(piece, max_size=4), min_size=1, max_size=5))
        # 'ntf': tempfile.NamedTemporaryFile - one wrapper class for binary and for text streams
        forms = draw(st.lists(st.sampled_from(['mem', 'mem', 'file', 'ntf']), min_size=len(members), max_size=len(members)))
        reads = draw(st.lists(st.one_of(
            st.tuples(st.just('read'), st.integers(1, 12)),
            st.tuples(st.just('read'), st.integers(1, 4)),
            st.tuples(st.just('readall')),
            st.tuples(st.just('seek0')),
        ).map(list), max_size=12))
        case = {'sub': 'mfr', 'kind': kind, 'members': members, 'forms': forms, 'reads': reads,
                'mixed': draw(st.sampled_from([False] * 9 + [True]))}
        if draw(st.integers(0, 24)) == 0:
            # scale class: members of more than 1 MiB (the content pieces repeated) and reads of more than 1 MiB
            MiB = 1 << 20
            case['member_bytes'] = draw(st.lists(st.sampled_from([0, 0, MiB - 1, MiB + 1, 2 * MiB + 3, 3 * MiB]), min_size=len(members), max_size=len(members)))
            case['reads'] = draw(st.lists(st.one_of(
                st.tuples(st.just('read'), st.sampled_from([MiB, MiB + 1, 2 * MiB, 3 * MiB + 7, 5 * MiB, 10, 65536])),
                st.tuples(st.just('readall')), st.tuples(st.just('seek0'))).map(list), min_size=1, max_size=6))
            case['mixed'] = False
        return case
    return case()


def run_mfr(case):
    out = Outcome()
    kind = case['kind']
    conv = (lambda pieces: j2b(''.join(pieces))) if kind == 'bytes' else (lambda pieces: ''.join(pieces))
    contents = [conv(m) for m in case['members']]
    if case.get('member_bytes'):
        unit_default = conv(['a', 'b', '\n'])
        contents = [(c or unit_default) * (nb // len(c or unit_default) + 1) if nb else c for c, nb in zip(contents, case['member_bytes'])]
        out.label('members_over_1MiB')
    if kind == 'text':
        # real text files: avoid newline translation differences by never writing \r
        contents = [c.replace('\r', '') for c in contents]
    tmpdir = tempfile.mkdtemp(prefix='c18m')
    files = []
    try:
        for i, (c, form) in enumerate(zip(contents, case['forms'])):
            if form == 'mem':
                files.append(io.BytesIO(c) if kind == 'bytes' else io.StringIO(c))
            elif form == 'ntf':
                t = tempfile.NamedTemporaryFile(mode='w+b', dir=tmpdir) if kind == 'bytes' else \
                    tempfile.NamedTemporaryFile(mode='w+', encoding='utf-8', newline='', dir=tmpdir)
                t.write(c)
                t.flush()
                t.seek(0)
                files.append(t)
                out.label('NamedTemporaryFile_member')
            else:
                path = os.path.join(tmpdir, 'm%d' % i)
                if kind == 'bytes':
                    with open(path, 'wb') as f:
                        f.write(c)
                    files.append(open(path, 'rb'))
                else:
                    with open(path, 'w', encoding='utf-8', newline='') as f:
                        f.write(c)
                    files.append(open(path, 'r', encoding='utf-8', newline=''))
        if case.get('mixed'):
            other = io.StringIO('x') if kind == 'bytes' else io.BytesIO(b'x')
            r = _call(MultiFileReader, *(files + [other]))
            if r[0] != 'exc' or r[1] != 'ValueError':
                return out.fail('c18.mfr.mixed', 'mixing bytes and text members -> %r, expected ValueError' % (r,))
            out.label('mixed_rejected')
            return out
        r = _call(MultiFileReader, *files)
        if r[0] != 'ok':
            return out.fail('c18.mfr.ctor', 'MultiFileReader(%d members) -> %r' % (len(files), r))
        mfr = r[1]
        whole = conv([]) if not contents else (b'' if kind == 'bytes' else '').join(contents)
        cur = 0
        seeked = False
        bounds = []
        acc = 0
        for c in contents:
            acc += len(c)
            bounds.append(acc)
        for step, op in enumerate(case['reads']):
            where = 'step %d %r of reads %r over members %s' % (step, op, case['reads'], ['<%d> %r...' % (len(c), c[:12]) if len(c) > 200 else repr(c) for c in contents])
            if op[0] == 'read':
                n = max(1, op[1])
                got = _call(mfr.read, n)
                exp = whole[cur:cur + n]
                if any(cur < b < cur + n for b in bounds[:-1]) and len(contents) > 1:
                    out.nontrivial = True
                    out.label('read_spans_members')
                if seeked:
                    out.nontrivial = True
                    out.label('read_after_seek0')
                cur += len(exp)
            elif op[0] == 'readall':
                got = _call(mfr.read)
                exp = whole[cur:]
                if seeked:
                    out.nontrivial = True
                    out.label('read_after_seek0')
                cur = len(whole)
            elif op[0] == 'seek0':
                got = _call(mfr.seek, 0)
                if got[0] != 'ok':
                    return out.fail('c18.mfr.seek', '%s: seek(0) -> %r' % (where, got))
                cur = 0
                seeked = True
                continue
            else:
                raise HarnessError('op %r' % (op,))
            if got != ('ok', exp):
                return out.fail('c18.mfr.read' + ('.after-seek0' if seeked else ''),
                                '%s: returned %s, concatenation gives %s' % (where, _abbr(got), _abbr(('ok', exp))))
        # full drain: the rest, then nothing
        got = _call(mfr.read)
        if got != ('ok', whole[cur:]):
            return out.fail('c18.mfr.drain', 'final read() -> %r, expected the remaining %r' % (got, whole[cur:]))
        got = _call(mfr.read, 5)
        if got != ('ok', whole[:0]):
            return out.fail('c18.mfr.drain', 'read(5) after exhaustion -> %r' % (got,))
        return out
    finally:
        for f in files:
            try:
                f.close()
            except Exception:
                pass
        import shutil
        shutil.rmtree(tmpdir, ignore_errors=True)


SUBS = {
    'spool': Sub('spool', strat_spool, run_spool, quick=12000, thorough=256000, quick_shards=8),
    'mfr': Sub('mfr', strat_mfr, run_mfr, quick=6000, thorough=128000, quick_shards=4),
}
