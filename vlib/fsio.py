"""File-system interposition for the atomic_save properties (C04 crash points, C05 injected faults).

Everything here runs inside a *forked child* of the checking process: the attributes of the real
``os`` module (and ``builtins.open`` / ``io.open``) are replaced by wrappers that

* record an event for every call that touches the sandbox directory (or a descriptor opened in it),
* raise an injected ``OSError`` instead of performing the call (fault plan), or
* kill the process at a chosen point (crash plan) after emulating a power loss: data that was never
  fsync'ed is thrown away, directory operations (rename/link/unlink) are kept in program order.

File objects returned for sandbox files are wrapped so that ``write``/``flush``/``close``/``truncate`` at
the Python level are events too (user-space buffers are genuinely lost at ``os._exit``).
"""
import builtins
import errno as errno_mod
import io
import json
import os
import sys

_real = {}
FAULTABLE = ('os.open', 'os.chmod', 'os.fchmod', 'f.write', 'f.flush', 'os.fsync', 'os.fdatasync', 'f.close', 'os.link', 'os.rename',
             'os.replace', 'os.unlink', 'os.remove', 'open')


class CrashNow(BaseException):
    pass


class Interposer:
    def __init__(self, sandbox, crash_at=None, faults=None, log_fd=None):
        self.sandbox = os.path.realpath(sandbox)
        self.events = []
        self.crash_at = crash_at          # (index, 'before' | 'after') or None
        self.faults = dict(faults or {})  # event index -> errno
        self.fds = {}                     # fd -> info dict {path, dup, synced(bytes)}
        self.inodes = {}                  # dup fd -> {'synced': bytes, 'path': path}
        self.active = True
        self.depth = 0
        self.log_fd = log_fd
        self.fired_faults = []
        # (relative destination name, callable) - the callable runs once, straight before the first two-path call (link / rename /
        # replace) that targets that name: "something else happens at the last possible moment before publication"
        self.before_publish = None
        self.publish_hook_fired = False

    # ---- helpers -------------------------------------------------------
    def _in_sandbox(self, path):
        try:
            if isinstance(path, int):
                return path in self.fds
            if isinstance(path, bytes):
                path = os.fsdecode(path)
            p = os.path.normpath(os.path.join(os.getcwd(), path))
            real_dir = os.path.realpath(os.path.dirname(p))
            return real_dir == self.sandbox or real_dir.startswith(self.sandbox + os.sep)
        except Exception:
            return False

    def _rel(self, path):
        if isinstance(path, int):
            return self.fds.get(path, {}).get('path', '<fd %d>' % path)
        if isinstance(path, bytes):
            path = os.fsdecode(path)
        p = os.path.normpath(os.path.join(os.getcwd(), path))
        real = os.path.join(os.path.realpath(os.path.dirname(p)), os.path.basename(p))
        if real.startswith(self.sandbox + os.sep):
            return real[len(self.sandbox) + 1:]
        return real

    def _event(self, kind, **info):
        """register an event; may crash or inject a fault.  Returns the event index."""
        idx = len(self.events)
        ev = dict(kind=kind, **info)
        self.events.append(ev)
        if self.crash_at is not None and self.crash_at == (idx, 'before'):
            self.crash()
        if idx in self.faults and kind in FAULTABLE:
            e = self.faults[idx]
            ev['fault'] = e
            self.fired_faults.append(idx)
            return idx, OSError(e, os.strerror(e) + ' (injected)')
        return idx, None

    def _after(self, idx):
        if self.crash_at is not None and self.crash_at == (idx, 'after'):
            self.crash()

    def crash(self):
        """power loss: unsynced data is gone, then the process dies without running anything else"""
        self.active = False
        try:
            for dup, info in list(self.inodes.items()):
                try:
                    size = _real['os.fstat'](dup).st_size
                    cur = _real['os.pread'](dup, size, 0) if size else b''
                    if cur != info['synced']:
                        _real['os.ftruncate'](dup, 0)
                        if info['synced']:
                            _real['os.pwrite'](dup, info['synced'], 0)
                except OSError:
                    pass
        finally:
            os._exit(137)

    def _track(self, fd, path, writable=True):
        if not writable:
            return
        try:
            dup = _real['os.dup'](fd)
        except OSError:
            return
        st = _real['os.fstat'](fd)
        key = None
        for d, info in self.inodes.items():
            if info['ino'] == (st.st_dev, st.st_ino):
                key = d
        if key is None:
            # a freshly created file has no durable content; an existing one is durable as it is
            size = st.st_size
            content = _real['os.pread'](dup, size, 0) if size else b''
            self.inodes[dup] = {'synced': content, 'path': path, 'ino': (st.st_dev, st.st_ino)}
        else:
            _real['os.close'](dup)
        self.fds[fd] = {'path': path}

    def _sync(self, fd):
        st = _real['os.fstat'](fd)
        for d, info in self.inodes.items():
            if info['ino'] == (st.st_dev, st.st_ino):
                size = st.st_size
                info['synced'] = _real['os.pread'](d, size, 0) if size else b''

    # ---- install -------------------------------------------------------
    def install(self):
        ip = self
        for name in ('open', 'fdopen', 'write', 'fsync', 'fdatasync', 'close', 'rename', 'replace', 'link', 'unlink', 'remove', 'chmod',
                     'fchmod', 'truncate', 'ftruncate', 'dup', 'fstat', 'pread', 'pwrite', 'stat'):
            _real['os.' + name] = getattr(os, name)
        _real['open'] = builtins.open
        _real['io.open'] = io.open

        def os_open(path, flags, mode=0o777, *a, **kw):
            if not ip.active or not ip._in_sandbox(path):
                return _real['os.open'](path, flags, mode, *a, **kw)
            writable = bool(flags & (os.O_WRONLY | os.O_RDWR))
            idx, fault = ip._event('os.open', path=ip._rel(path), flags=flags & (os.O_CREAT | os.O_EXCL | os.O_TRUNC | os.O_WRONLY | os.O_RDWR),
                                   excl=bool(flags & os.O_EXCL), creat=bool(flags & os.O_CREAT), trunc=bool(flags & os.O_TRUNC), mode=mode)
            if fault:
                raise fault
            try:
                fd = _real['os.open'](path, flags, mode, *a, **kw)
            except OSError as e:
                ip.events[idx]['error'] = e.errno
                ip._after(idx)
                raise
            ip._track(fd, ip._rel(path), writable)
            ip._after(idx)
            return fd

        def os_fdopen(fd, *a, **kw):
            f = _real['os.fdopen'](fd, *a, **kw)
            if ip.active and fd in ip.fds:
                return FileProxy(ip, f, ip.fds[fd]['path'])
            return f

        def mk_fd_call(name, sync=False):
            def wrapper(fd, *a, **kw):
                if not ip.active or fd not in ip.fds:
                    return _real['os.' + name](fd, *a, **kw)
                idx, fault = ip._event('os.' + name, path=ip.fds[fd]['path'])
                if fault:
                    if name == 'close':
                        _real['os.close'](fd)
                        ip.fds.pop(fd, None)
                    raise fault
                r = _real['os.' + name](fd, *a, **kw)
                if sync:
                    ip._sync(fd)
                if name == 'close':
                    ip.fds.pop(fd, None)
                ip._after(idx)
                return r
            return wrapper

        def mk_path_call(name, two=False):
            def wrapper(*a, **kw):
                paths = a[:2] if two else a[:1]
                if not ip.active or not any(ip._in_sandbox(p) for p in paths if isinstance(p, (str, bytes, int))):
                    return _real['os.' + name](*a, **kw)
                info = {'path': ip._rel(paths[0])}
                if two:
                    info['dst'] = ip._rel(paths[1])
                    info['src_dir_same'] = os.path.realpath(os.path.dirname(os.path.abspath(paths[0]))) == \
                        os.path.realpath(os.path.dirname(os.path.abspath(paths[1])))
                if name in ('chmod', 'fchmod') and len(a) > 1:
                    info['mode'] = a[1]
                if two and ip.before_publish is not None and not ip.publish_hook_fired and info['dst'] == ip.before_publish[0]:
                    ip.publish_hook_fired = True
                    ip.active = False
                    try:
                        ip.before_publish[1]()
                    finally:
                        ip.active = True
                idx, fault = ip._event('os.' + name, **info)
                if fault:
                    raise fault
                try:
                    r = _real['os.' + name](*a, **kw)
                except OSError as e:
                    ip.events[idx]['error'] = e.errno
                    ip._after(idx)
                    raise
                ip._after(idx)
                return r
            return wrapper

        def py_open(file, mode='r', *a, **kw):
            if not ip.active or isinstance(file, int) or not ip._in_sandbox(file) or not any(c in mode for c in 'wax+'):
                return _real['open'](file, mode, *a, **kw)
            idx, fault = ip._event('open', path=ip._rel(file), mode=mode, trunc='w' in mode)
            if fault:
                raise fault
            try:
                f = _real['open'](file, mode, *a, **kw)
            except OSError as e:
                ip.events[idx]['error'] = e.errno
                ip._after(idx)
                raise
            ip._track(f.fileno(), ip._rel(file), True)
            ip._after(idx)
            return FileProxy(ip, f, ip._rel(file))

        os.open = os_open
        os.fdopen = os_fdopen
        os.fsync = mk_fd_call('fsync', sync=True)
        os.fdatasync = mk_fd_call('fdatasync', sync=True)
        os.close = mk_fd_call('close')
        os.write = mk_fd_call('write')
        os.ftruncate = mk_fd_call('ftruncate')
        os.fchmod = mk_fd_call('fchmod')
        os.rename = mk_path_call('rename', two=True)
        os.replace = mk_path_call('replace', two=True)
        os.link = mk_path_call('link', two=True)
        os.unlink = mk_path_call('unlink')
        os.remove = mk_path_call('remove')
        os.chmod = mk_path_call('chmod')
        os.truncate = mk_path_call('truncate')
        builtins.open = py_open
        io.open = py_open

    def dump(self):
        return {'events': self.events, 'fired_faults': self.fired_faults, 'publish_hook_fired': self.publish_hook_fired}


class FileProxy:
    """wraps a Python file object on a sandbox file: write/flush/close/truncate become events"""

    def __init__(self, ip, f, path):
        object.__setattr__(self, '_ip', ip)
        object.__setattr__(self, '_f', f)
        object.__setattr__(self, '_path', path)

    def __getattr__(self, name):
        return getattr(self._f, name)

    def __setattr__(self, name, value):
        setattr(self._f, name, value)

    def __iter__(self):
        return iter(self._f)

    def __enter__(self):
        self._f.__enter__()
        return self

    def __exit__(self, *a):
        self.close()
        return False

    def _do(self, kind, f, close=False, **info):
        ip = self._ip
        if not ip.active:
            return f()
        idx, fault = ip._event(kind, path=self._path, **info)
        if fault:
            if close:
                fd = None
                try:
                    fd = self._f.fileno()
                except Exception:
                    pass
                try:
                    # the descriptor goes away, buffered data that cannot be written is lost
                    _real['os.close'](fd) if fd is not None else None
                except OSError:
                    pass
                ip.fds.pop(fd, None)
                try:
                    self._f.close()
                except Exception:
                    pass
            raise fault
        try:
            r = f()
        except Exception as e:      # noqa  (e.g. ValueError: flush of a file the body closed itself)
            ip.events[idx]['error'] = getattr(e, 'errno', None) or type(e).__name__
            ip._after(idx)
            raise
        ip._after(idx)
        return r

    def write(self, data):
        return self._do('f.write', lambda: self._f.write(data), n=len(data))

    def writelines(self, lines):
        lines = list(lines)
        return self._do('f.write', lambda: self._f.writelines(lines), n=sum(len(x) for x in lines))

    def flush(self):
        return self._do('f.flush', lambda: self._f.flush())

    def truncate(self, *a):
        return self._do('f.truncate', lambda: self._f.truncate(*a))

    def close(self):
        if self._f.closed:
            return self._f.close()
        fd = None
        try:
            fd = self._f.fileno()
        except Exception:
            pass

        def _close():
            r = self._f.close()
            self._ip.fds.pop(fd, None)
            return r
        return self._do('f.close', _close, close=True)


def run_in_child(sandbox, body, crash_at=None, faults=None, umask=None):
    """fork; in the child install the interposer and run body(interposer) -> JSON-able result.
    Returns (exit_status, result_dict | None)."""
    r, w = os.pipe()
    sys.stdout.flush()
    sys.stderr.flush()
    pid = os.fork()
    if pid == 0:
        status = 0
        try:
            os.close(r)
            if umask is not None:
                os.umask(umask)
            ip = Interposer(sandbox, crash_at=crash_at, faults=faults)
            ip.install()
            res = {}
            try:
                res = body(ip) or {}
            except BaseException as e:   # noqa
                res = {'harness_exception': '%s: %s' % (type(e).__name__, e)}
                import traceback
                res['traceback'] = traceback.format_exc(limit=-6)
            ip.active = False
            res.update(ip.dump())
            data = json.dumps(res, default=repr).encode('utf-8')
            off = 0
            while off < len(data):
                off += _real['os.write'](w, data[off:off + 65536])
        except BaseException:   # noqa
            status = 3
        finally:
            os._exit(status)
    os.close(w)
    chunks = []
    while True:
        b = os.read(r, 65536)
        if not b:
            break
        chunks.append(b)
    os.close(r)
    _, st = os.waitpid(pid, 0)
    code = os.waitstatus_to_exitcode(st)
    data = b''.join(chunks)
    res = None
    if data:
        try:
            res = json.loads(data.decode('utf-8'))
        except ValueError:
            res = None
    return code, res
