"""Generator classes added after the seeded-change rounds (DESIGN.md section 10), one sentence per property.
Appended to the manifest level text (tools/gen_manifest.py) and to the evidence rule (vlib/main.py)."""
EXTRA = {
    'C01': 'bulk addlist/update_extend of 257/300 values and the same argument object passed to two calls; comparisons with instances of a subclass (both operand orders); containers returned by reads are modified by the harness before the next read',
    'C02': 'max_size 128/257/300 with a fill over more keys than the capacity; re-entrant on_miss callbacks that store into the cache; identity-checked defaults; loaders (on_miss) that raise KeyError or another exception for every other key',
    'C03': 'an unhashable key (TypeError, nothing changed, lock free); sub-check "bulk": update() of 1000-8193 items with every complete lock release as pre-emption point; update(positional, **keywords) in one call; sub-check "fresh": the cache is built in a new interpreter before the program imports threading',
    'C04': 'stale part files of a crashed attempt; destination names of 250/251/255 characters (part name crossing NAME_MAX); bodies that close the file object themselves; destinations with a second hard link',
    'C05': 'bodies raising a falsy exception, KeyboardInterrupt, GeneratorExit, SystemExit; the same AtomicSaver object re-used for a second save; bodies that close the file object and then raise or return; new content identical to the old content or to the file of the racing writer',
    'C06': 'BOM / non-characters / bidi controls / U+2028-9 / ends of the BMP in every component; ports of 4300/4301/5000 digits and 5000-character inputs in the totality sub-check; lone surrogates; scheme-less www. links whose host only fails once a scheme is supplied',
    'C07': 'escaped slashes (%2F), colon segments, and URL-looking queries/fragments in the references; the same base object used again after its path/host was changed; references whose query was built or emptied through query_params',
    'C08': 'containers of 2049-8193 members and thousands of containers between two references to one object; str/bytes subclass and enum leaves; an earlier remap() call that failed',
    'C09': 'chunk_ranges with sizes/offsets around 2^31, 2^53, 2^63, 2^64, 10^30; split separators that are equal but unhashable or numerically equal; strip family results compared by identity; unique/redundant with a string key naming a missing attribute over fresh equal objects',
    'C10': 'tasks None/0/\'\' and pop/peek defaults None or the head task itself; custom priority_key functions that rank None separately; priorities the key rejects (state must be unchanged)',
    'C11': '3500/5000-item sets with 380-436 scattered removals (more than 384 dead intervals), several live instances; sort(key=...) with tied keys after reverse/sort; slice bounds and steps beyond the machine word',
    'C12': 'scripted transient socket errors mid-call followed by a retry; reader limits given per call or via setmaxsize(); half of the cases use one delimiter for all recv_until calls',
    'C13': 'stacked wraps; injected absent+present mixes; re-wrapping after the original\'s defaults/annotations/name were reassigned; generator and async-generator functions; injected and expected in one call',
    'C14': 'gzip payloads of 1-16 MiB at and around multiples of 4 MiB with all-zero, patterned and random content; parse results modified and the text parsed again; an earlier call with invalid input',
    'C15': '\'repeat\' as a run-time built string; starts below the float epsilon; the returned list modified and the identical call repeated',
    'C16': 'message lines equal to the interpreter\'s banners; code under linecache-registered pseudo files and code whose source is only reachable through __loader__; call chains deeper than 1000 frames',
    'C17': 'pool values re-created per use (equal but not identical); identity-hashed values through deepcopy/pickle of FrozenDict; equality re-checked after hash() was attempted on both sides',
    'C18': 'single writes of 64-200 KiB of multi-byte text then rollover(); MultiFileReader members and reads above 1 MiB; writelines from a list, from a generator that watches tell(), from a generator that fails half-way; NamedTemporaryFile members',
    'C19': 'one line of 4-140 thousand non-uniform characters at the default block size; unflushed w+ text handles; JSON lines nested beyond the recursion limit of the decoder; decoded objects modified and the file read again',
    'C20': 'keys None/0/\'\'/() and update() with MappingProxyType, ChainMap, UserDict, OrderedDict; update() from a generator that itself adds to the counter; most_common() results modified before the next query',
}
