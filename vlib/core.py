"""Common machinery: outcomes, case codec, known findings, shrinker, evidence.

A *case* is plain JSON data.  A property module exposes ``SUBS``: a dict
``name -> Sub`` where each Sub has a Hypothesis strategy producing cases and a
``run(case) -> Outcome`` function that executes the case against the real code
from /repo's working tree and against the oracle.
"""
import hashlib
import json
import os
import sys
import time
import traceback

VERIF_DIR = os.path.dirname(os.path.dirname(os.path.abspath(__file__)))
REPO = os.environ.get('VERIF_REPO', '/repo')


class HarnessError(Exception):
    """The harness itself is wrong / the case is malformed (never a violation)."""


class CaseTimeout(BaseException):
    """A single case ran for longer than CASE_TIMEOUT seconds (tested code hangs)."""


# a case normally takes milliseconds; these limits only exist so that a hang or a
# memory blow-up in (mutated) code under test ends as a reported failure instead of
# wedging the checker.  A first timeout is re-tried once with CONFIRM_TIMEOUT.
CASE_TIMEOUT = float(os.environ.get('VERIF_CASE_TIMEOUT', '30'))
CONFIRM_TIMEOUT = float(os.environ.get('VERIF_CONFIRM_TIMEOUT', '90'))
MEM_LIMIT = int(float(os.environ.get('VERIF_MEM_GB', '6')) * (1 << 30))


def limit_memory():
    try:
        import resource
        soft, hard = resource.getrlimit(resource.RLIMIT_AS)
        if hard == resource.RLIM_INFINITY or hard > MEM_LIMIT:
            resource.setrlimit(resource.RLIMIT_AS, (MEM_LIMIT, hard))
    except Exception:
        pass


def _on_alarm(signum, frame):
    # re-arm (see with_timeout): if this exception is swallowed the next alarm comes in 5 s; if it is not, the
    # unwinding code (finally blocks restoring patched state) has 5 s before it could be interrupted again
    import signal
    signal.setitimer(signal.ITIMER_REAL, 5, 5)
    raise CaseTimeout()


def with_timeout(f, seconds):
    """Run f() under a SIGALRM-based wall clock limit (main thread only)."""
    import signal
    import threading
    if threading.current_thread() is not threading.main_thread():
        return f()
    old = signal.signal(signal.SIGALRM, _on_alarm)
    # repeating timer: an exception raised by the handler while the interpreter happens to run a gc callback, a __del__ or a
    # weakref callback is swallowed there ("Exception ignored in ..."), so the alarm must keep coming until it lands in ordinary code
    signal.setitimer(signal.ITIMER_REAL, seconds, 5)
    try:
        return f()
    finally:
        signal.setitimer(signal.ITIMER_REAL, 0)
        signal.signal(signal.SIGALRM, old)


POISON = ('POISON',)


def poison(x):
    """Mutate a container a read returned to the caller (lists, dicts, sets, bytearrays; one level), so that a result that
    aliases internal state or a process-wide cache shows up in later reads.  Values/leaves are left alone."""
    try:
        if type(x) is list:
            x.append(POISON)
        elif type(x) is dict:
            x[POISON] = POISON
        elif type(x) is set:
            x.add(POISON)
        elif type(x) is bytearray:
            x.extend(b'POISON')
    except Exception:       # noqa
        pass
    return x


class Outcome:
    __slots__ = ('ok', 'nontrivial', 'labels', 'kind', 'detail', 'excluded', 'units')

    def __init__(self):
        self.ok = True
        self.nontrivial = False
        self.labels = []
        self.kind = None
        self.detail = None
        self.excluded = []      # kinds of known findings met (and skipped) in this case
        self.units = 0          # inner executions of this case (crash points, fault runs, schedules, call shapes)

    def label(self, *names):
        self.labels.extend(names)

    def fail(self, kind, detail):
        """Record the first failure of the case."""
        if self.ok:
            self.ok = False
            self.kind = kind
            self.detail = detail if isinstance(detail, str) else repr(detail)
            if len(self.detail) > 2000:
                self.detail = self.detail[:2000] + '...'
        return self

    def __repr__(self):
        return 'Outcome(ok=%r, nontrivial=%r, kind=%r, detail=%r, excluded=%r)' % (
            self.ok, self.nontrivial, self.kind, self.detail, self.excluded)


class Sub:
    """One sub-check of a property."""

    def __init__(self, name, strategy, run, quick, thorough, doc='',
                 quick_shards=4, thorough_shards=16):
        self.name = name
        self.strategy = strategy      # callable tier -> hypothesis strategy
        self.run = run                # callable case -> Outcome
        self.quick = quick            # total number of cases, quick tier
        self.thorough = thorough      # total number of cases, thorough tier
        self.doc = doc
        self.quick_shards = quick_shards
        self.thorough_shards = thorough_shards


# ---------------------------------------------------------------------------
# known findings

ACTIVE_KNOWN = set()     # signatures (kinds) of known findings that still reproduce


def is_known(kind):
    return kind in ACTIVE_KNOWN


def load_known_findings():
    path = os.path.join(VERIF_DIR, 'known_findings.json')
    if not os.path.exists(path):
        return []
    with open(path) as f:
        return json.load(f)['findings']


# ---------------------------------------------------------------------------
# codec helpers: JSON-safe encodings for bytes / tuples / sets

def b2j(b):
    return b.decode('latin-1')


def j2b(s):
    return s.encode('latin-1')


def canon(case):
    return json.dumps(case, sort_keys=True, ensure_ascii=True, separators=(',', ':'))


def case_hash(case):
    return hashlib.sha1(canon(case).encode()).hexdigest()[:16]


def short(obj, n=300):
    r = repr(obj)
    return r if len(r) <= n else r[:n] + '...<%d chars>' % len(r)


# ---------------------------------------------------------------------------
# running one case safely

def run_case(sub, case):
    """Run a case; exceptions escaping the property's run() are harness errors."""
    return sub.run(case)


def fails_like(sub, case, kind):
    from .main import _safe_run
    try:
        out, herr = _safe_run(sub, case, 5.0)      # a candidate that hangs is simply not taken
    except CaseTimeout:
        return False
    except Exception:
        return False
    if herr is not None or out is None:
        return False
    return (not out.ok) and out.kind == kind


# ---------------------------------------------------------------------------
# generic structural shrinker over JSON cases (bounded ddmin-style)

def _candidates(x):
    """Yield smaller variants of a JSON value (outermost/biggest cuts first)."""
    if isinstance(x, list):
        n = len(x)
        if n:
            step = n // 2
            while step >= 1:
                for i in range(0, n, step):
                    yield x[:i] + x[i + step:]
                if step == 1:
                    break
                step //= 2
        for i, el in enumerate(x):
            if i == 0 and isinstance(el, str):
                continue        # operation tag
            for c in _candidates(el):
                yield x[:i] + [c] + x[i + 1:]
    elif isinstance(x, dict):
        for k in x:
            if k in ('sub', 'op'):
                continue
            if isinstance(x[k], str) and not (k.startswith('text') or k.startswith('data')):
                continue        # tags / modes are not shrunk
            for c in _candidates(x[k]):
                d = dict(x)
                d[k] = c
                yield d
    elif isinstance(x, bool) or x is None:
        if x is True:
            yield False
    elif isinstance(x, int):
        if x != 0:
            yield 0
            if abs(x) > 1:
                yield x // 2 if x > 0 else -((-x) // 2)
                yield x - 1 if x > 0 else x + 1
    elif isinstance(x, float):
        if x != 0.0 and x == x:
            yield 0.0
            if x != 1.0:
                yield 1.0
            if abs(x) not in (float('inf'),) and x != int(x):
                yield float(int(x))
    elif isinstance(x, str):
        n = len(x)
        if n > 8:       # short strings are usually tags/modes: left alone
            step = n // 2
            while step >= 1:
                for i in range(0, n, step):
                    yield x[:i] + x[i + step:]
                if step == 1:
                    break
                step //= 2


def shrink(sub, case, kind, max_evals=400, max_seconds=60.0):
    """Greedy: repeatedly take the first smaller candidate that still fails
    with the same kind.  Bounded by evaluations and wall time."""
    t0 = time.time()
    evals = 0
    best = case
    improved = True
    while improved:
        improved = False
        for cand in _candidates(best):
            if evals >= max_evals or time.time() - t0 > max_seconds:
                return best, evals
            if len(canon(cand)) >= len(canon(best)) and cand == best:
                continue
            evals += 1
            if fails_like(sub, cand, kind):
                best = cand
                improved = True
                break
    return best, evals


# ---------------------------------------------------------------------------
# replay files

def write_replay(prop_id, sub_name, case, out, directory=None):
    directory = directory or os.path.join(VERIF_DIR, 'out', prop_id)
    os.makedirs(directory, exist_ok=True)
    path = os.path.join(directory, '%s_%s.json' % (sub_name, case_hash(case)))
    with open(path, 'w') as f:
        rec = {'property': prop_id, 'sub': sub_name, 'kind': out.kind, 'detail': out.detail, 'case': case}
        if sys.flags.optimize:
            rec['python_flags'] = ['-O']        # found by the optimized-interpreter pass: replay re-executes itself with -O
        json.dump(rec, f, indent=1, sort_keys=True)
    return path


def load_replay(path):
    with open(path) as f:
        return json.load(f)


def expand_ops(case, shift_positions=(1,)):
    """The operation list of a history, repeated case['repeat'] times (default 1).  In repetition number `it` the integer
    arguments at *shift_positions* are shifted by `it`, so a short generated program becomes a long history that keeps
    touching new keys (long-lived internal state: counters, tables, thresholds).  Yields (op, full_check): the expensive
    whole-state comparison is only requested at the end of each repetition when the history is repeated."""
    rep = max(1, int(case.get('repeat', 1) or 1))
    ops = case['ops']
    if rep == 1:
        return [(op, True) for op in ops]
    out = []
    for it in range(rep):
        for j, op in enumerate(ops):
            op2 = list(op)
            for pos in shift_positions:
                if pos < len(op2) and isinstance(op2[pos], int) and not isinstance(op2[pos], bool):
                    op2[pos] = op2[pos] + it
            out.append((op2, j == len(ops) - 1))
    return out


REPEATS = [1] * 44 + [30, 100]


def fmt_exc():
    return traceback.format_exc(limit=8)
