"""./check <ID> quick|thorough      run the property's generated search
./check <ID> --replay <file>       re-run one saved case (bypasses Hypothesis)

exit 0: property held on everything explored (known findings are reported
        with KNOWN-FINDING lines); exit 1: VIOLATION line(s) printed;
exit 2: harness error (never a VIOLATION).
"""
import collections
import glob
import importlib
import json
import multiprocessing
import os
import sys
import time
import traceback

from . import core
from .core import HarnessError
from .classes import EXTRA

PROPS = {
    'C01': 'c01_omd', 'C02': 'c02_cache', 'C03': 'c03_threads', 'C04': 'c04_crash',
    'C05': 'c05_faults', 'C06': 'c06_url', 'C07': 'c07_navigate', 'C08': 'c08_remap',
    'C09': 'c09_iter', 'C10': 'c10_queue', 'C11': 'c11_indexedset', 'C12': 'c12_socket',
    'C13': 'c13_wraps', 'C14': 'c14_strutils', 'C15': 'c15_backoff', 'C16': 'c16_tb',
    'C17': 'c17_dicts', 'C18': 'c18_io', 'C19': 'c19_lines', 'C20': 'c20_threshold',
}


def _setup_path():
    repo = core.REPO
    if not os.path.isdir(os.path.join(repo, 'boltons')):
        raise HarnessError('no boltons package under %s' % repo)
    sys.path.insert(0, repo)
    import boltons
    got = os.path.dirname(os.path.abspath(boltons.__file__))
    if os.path.realpath(got) != os.path.realpath(os.path.join(repo, 'boltons')):
        raise HarnessError('boltons imported from %s, expected %s' % (got, repo))


def _import_hypothesis():
    try:
        import hypothesis  # noqa
    except ImportError:
        import subprocess
        subprocess.call([sys.executable, '-m', 'pip', 'install', '-q', '--no-index',
                         '--find-links', '/opt/veriftools/wheels', 'hypothesis'],
                        stdout=sys.stderr)
        import hypothesis  # noqa


def _through_boltons(tb):
    root = os.path.realpath(os.path.join(core.REPO, 'boltons')) + os.sep
    inner = None
    while tb is not None:
        fn = os.path.realpath(tb.tb_frame.f_code.co_filename)
        if fn.startswith(root):
            inner = '%s:%s' % (os.path.basename(fn), tb.tb_frame.f_code.co_name)
        tb = tb.tb_next
    return inner


def safe_run(sub, case):
    """Run one case under the per-case time limit.  Returns (Outcome | None, harness_error_text | None).
    A case that exceeds CASE_TIMEOUT is re-run once with CONFIRM_TIMEOUT; only if it exceeds that as well
    (thousands of times the normal duration) it is reported as a failure of kind 'hang'."""
    try:
        return _safe_run(sub, case, core.CASE_TIMEOUT)
    except core.CaseTimeout:
        pass
    try:
        return _safe_run(sub, case, core.CONFIRM_TIMEOUT)
    except core.CaseTimeout:
        out = core.Outcome()
        out.fail('hang', 'the case did not finish within %.0f s (and %.0f s on a first attempt); normal cases take milliseconds' % (
            core.CONFIRM_TIMEOUT, core.CASE_TIMEOUT))
        return out, None


def _safe_run(sub, case, seconds):
    try:
        return core.with_timeout(lambda: sub.run(case), seconds), None
    except core.CaseTimeout:
        raise
    except MemoryError:
        out = core.Outcome()
        out.fail('memory', 'the case exhausted the %d GiB memory limit of the checking process' % (core.MEM_LIMIT >> 30))
        return out, None
    except HarnessError:
        return None, traceback.format_exc(limit=-8)
    except BaseException as e:   # noqa
        if isinstance(e, (KeyboardInterrupt, SystemExit)):
            raise
        where = _through_boltons(e.__traceback__)
        if where is not None:
            out = core.Outcome()
            out.fail('crash:%s@%s' % (type(e).__name__, where),
                     'unexpected %s escaped from boltons: %s\n%s' % (
                         type(e).__name__, e, traceback.format_exc(limit=-8)))
            return out, None
        return None, traceback.format_exc(limit=-8)


def _shard(task):
    (modname, sub_name, tier, seed, shard, n, deadline, active) = task
    core.limit_memory()
    core.ACTIVE_KNOWN.clear()
    core.ACTIVE_KNOWN.update(active)
    import hypothesis
    from hypothesis import given, settings, HealthCheck, Phase
    mod = importlib.import_module('props.' + modname)
    sub = mod.SUBS[sub_name]
    st = {
        'sub': sub_name, 'shard': shard, 'evals': 0, 'skipped': 0, 'nt': set(), 'all': 0,
        'labels': collections.Counter(), 'samples': [], 'failures': {},
        'excluded': collections.Counter(), 'harness': [], 'distinct': set(),
    }

    def body(case):
        st['calls'] = st.get('calls', 0) + 1
        if shard > 0 and st['calls'] == 1:
            return      # Hypothesis starts every run with the same minimal example: only shard 0 spends a case on it
        if time.time() > deadline or st.get('stop'):
            st['skipped'] += 1
            return
        out, herr = safe_run(sub, case)
        if out is not None and out.kind in ('hang', 'memory'):
            st['stop'] = True       # do not spend the rest of the budget waiting on hangs
        if herr is not None:
            if len(st['harness']) < 3:
                st['harness'].append({'case': case, 'error': herr})
            return
        st['evals'] += 1
        st['units'] = st.get('units', 0) + out.units
        h = core.case_hash(case)
        st['distinct'].add(h)
        for lab in out.labels:
            st['labels'][lab] += 1
        for k in out.excluded:
            st['excluded'][k] += 1
        if out.nontrivial:
            if h not in st['nt']:
                st['nt'].add(h)
                if len(st['samples']) < 3 and len(core.canon(case)) < 1500:
                    st['samples'].append(case)
        if not out.ok:
            if core.is_known(out.kind):
                st['excluded'][out.kind] += 1
                return
            cur = st['failures'].get(out.kind)
            size = len(core.canon(case))
            if cur is None or size < cur[0]:
                st['failures'][out.kind] = (size, case, out.detail)

    test = given(sub.strategy(tier))(body)
    test = settings(max_examples=n + (1 if shard > 0 else 0), database=None, deadline=None,
                    derandomize=False, report_multiple_bugs=False,
                    phases=[Phase.generate],
                    suppress_health_check=list(HealthCheck))(test)
    test = hypothesis.seed(seed * 1000 + shard)(test)
    try:
        test()
    except BaseException as e:   # hypothesis-level problem (strategy bug, ...)
        if isinstance(e, (KeyboardInterrupt, SystemExit)):
            raise
        st['harness'].append({'case': None, 'error': traceback.format_exc(limit=10)})
    st['labels'] = dict(st['labels'])
    st['excluded'] = dict(st['excluded'])
    return st


def _run_tasks(tasks, nprocs):
    """run the shards in worker processes; a worker that dies (segfault of the interpreter, OOM kill) must neither hang the
    check nor take the other shards with it: shards lost with a broken pool are run again, each in a process of its own"""
    from concurrent.futures import ProcessPoolExecutor, as_completed
    from concurrent.futures.process import BrokenProcessPool
    ctx = multiprocessing.get_context('fork')
    results, lost = [], []
    with ProcessPoolExecutor(max_workers=min(nprocs, len(tasks)), mp_context=ctx) as ex:
        futs = {ex.submit(_shard, t): t for t in tasks}
        for f in as_completed(futs):
            try:
                results.append(f.result())
            except BrokenProcessPool:
                lost.append(futs[f])
    died = []
    if lost:
        execs = [(t, ProcessPoolExecutor(max_workers=1, mp_context=ctx)) for t in lost]
        futs = [(t, ex, ex.submit(_shard, t)) for t, ex in execs]
        for t, ex, f in futs:
            try:
                results.append(f.result())
            except BrokenProcessPool:
                died.append(t)
            finally:
                ex.shutdown(wait=False, cancel_futures=True)
    return results, died


def _shrink_task(args):
    modname, sub_name, case, kind, max_evals, max_seconds, active = args
    core.ACTIVE_KNOWN.clear()
    core.ACTIVE_KNOWN.update(active)
    mod = importlib.import_module('props.' + modname)
    sub = mod.SUBS[sub_name]
    small, n_ev = core.shrink(sub, case, kind, max_evals=max_evals, max_seconds=max_seconds)
    out, herr = safe_run(sub, small)
    if out is None or out.ok or out.kind != kind:
        return None
    return small, n_ev, out.kind, out.detail


def _shrink_in_child(modname, sub_name, case, kind, max_evals, max_seconds):
    """shrinking re-runs hundreds of failing variants; done in a child process so that a variant which brings the interpreter
    down costs the shrinking, not the report"""
    from concurrent.futures import ProcessPoolExecutor
    ctx = multiprocessing.get_context('fork')
    ex = ProcessPoolExecutor(max_workers=1, mp_context=ctx)
    try:
        f = ex.submit(_shrink_task, (modname, sub_name, case, kind, max_evals, max_seconds, sorted(core.ACTIVE_KNOWN)))
        return f.result(timeout=max_seconds * 3 + 300)
    except Exception:       # noqa  (BrokenProcessPool, timeout)
        return None
    finally:
        ex.shutdown(wait=False, cancel_futures=True)


def _print(*a):
    # (details may quote arbitrary generated text, lone surrogates included)
    print(*[x.encode('utf-8', 'backslashreplace').decode('utf-8') if isinstance(x, str) else x for x in a])
    sys.stdout.flush()


def run_replay(mod, prop_id, path):
    rp = core.load_replay(path)
    if '-O' in rp.get('python_flags', ()) and not sys.flags.optimize:
        # the case only fails in an optimized interpreter (python -O: asserts and `if __debug__:` blocks are compiled out)
        import subprocess
        return subprocess.call([sys.executable, '-O', '-B', '-m', 'vlib.main', prop_id, '--replay', path])
    sub = mod.SUBS[rp['sub']]
    out, herr = safe_run(sub, rp['case'])
    if herr is not None:
        _print('HARNESS-ERROR replaying %s\n%s' % (path, herr))
        return 2
    if out.ok:
        _print('replay %s: property holds on this case' % path)
        return 0
    _print('replay %s: FAILS kind=%s\n  %s' % (path, out.kind, out.detail))
    _print('VIOLATION property=%s replay=%s' % (prop_id, path))
    return 1


def main(argv=None):
    """every temporary file or directory of a run (scratch sandboxes, generated modules, shell work dirs - also those of worker
    processes, which end without running their atexit handlers) lives under one directory that is removed when the run ends"""
    import shutil
    import tempfile
    run_tmp = tempfile.mkdtemp(prefix='verif_run_')
    old_env, old_td = os.environ.get('TMPDIR'), tempfile.tempdir
    os.environ['TMPDIR'] = run_tmp
    tempfile.tempdir = run_tmp
    try:
        return _main(argv)
    finally:
        tempfile.tempdir = old_td
        if old_env is None:
            os.environ.pop('TMPDIR', None)
        else:
            os.environ['TMPDIR'] = old_env
        shutil.rmtree(run_tmp, ignore_errors=True)


def _main(argv=None):
    argv = list(sys.argv[1:] if argv is None else argv)
    if len(argv) < 2:
        _print(__doc__)
        return 2
    prop_id = argv[0].upper()
    if prop_id not in PROPS:
        _print('unknown property %s' % prop_id)
        return 2
    os.chdir(core.VERIF_DIR)
    sys.path.insert(0, core.VERIF_DIR)
    core.limit_memory()
    try:
        _setup_path()
        _import_hypothesis()
        mod = importlib.import_module('props.' + PROPS[prop_id])
    except Exception:
        _print('HARNESS-ERROR during setup\n' + traceback.format_exc())
        return 2

    if argv[1] == '--replay':
        # known findings stay visible in a replay: nothing is excluded
        return run_replay(mod, prop_id, argv[2])

    tier = argv[1]
    if tier not in ('quick', 'thorough'):
        _print('tier must be quick or thorough')
        return 2
    seed = int(os.environ.get('VERIF_SEED', '1') or 1)
    t0 = time.time()
    budget = float(os.environ.get('VERIF_BUDGET_S', '170' if tier == 'quick' else '5400'))
    deadline = t0 + budget
    violations = []          # (sub, case, outcome-ish)
    harness_errors = []
    known_reproduced = []
    known_stale = []
    replays_run = 0

    # ---- 1. known findings / fixed entries ---------------------------------
    referenced = set()
    entries = [e for e in core.load_known_findings() if e['property'] == prop_id]
    entries.sort(key=lambda e: 0 if e['status'] == 'known' else 1)      # known findings first: they may be met by other replays
    for e in entries:
        rpath = os.path.join(core.VERIF_DIR, e['replay'])
        referenced.add(os.path.realpath(rpath))
        rp = core.load_replay(rpath)
        sub = mod.SUBS[rp['sub']]
        out, herr = safe_run(sub, rp['case'])
        replays_run += 1
        if herr is not None:
            harness_errors.append('known-finding replay %s: %s' % (e['replay'], herr))
            continue
        if e['status'] == 'known':
            if not out.ok and out.kind == e['signature']:
                _print('KNOWN-FINDING: property=%s %s [%s]' % (prop_id, e['what'], e['signature']))
                core.ACTIVE_KNOWN.add(e['signature'])
                known_reproduced.append(e['signature'])
            elif not out.ok:
                violations.append((rp['sub'], rp['case'], out, rpath))
            else:
                known_stale.append(e['signature'])
        else:   # fixed: plain regression case, suppresses nothing (a *different*, active known finding met on the way is not its failure)
            if not out.ok and not core.is_known(out.kind):
                violations.append((rp['sub'], rp['case'], out, rpath))

    # ---- 2. committed regression replays -----------------------------------
    for rpath in sorted(glob.glob(os.path.join(core.VERIF_DIR, 'replays', prop_id, '*.json'))):
        if os.path.realpath(rpath) in referenced:
            continue
        rp = core.load_replay(rpath)
        sub = mod.SUBS[rp['sub']]
        out, herr = safe_run(sub, rp['case'])
        replays_run += 1
        if herr is not None:
            harness_errors.append('replay %s: %s' % (rpath, herr))
        elif not out.ok and not core.is_known(out.kind):
            violations.append((rp['sub'], rp['case'], out, rpath))

    # ---- 3. generated search, sharded --------------------------------------
    tasks = []
    for name, sub in mod.SUBS.items():
        total = sub.quick if tier == 'quick' else sub.thorough
        if not total or (sys.flags.optimize and not getattr(sub, 'opt_pass', True)):
            continue        # (sub-checks that only drive other processes gain nothing from the optimized-interpreter pass)
        shards = sub.quick_shards if tier == 'quick' else sub.thorough_shards
        shards = max(1, min(shards, total))
        per = (total + shards - 1) // shards
        per = max(1, int(per * float(os.environ.get('VERIF_SCALE', '1'))))
        for s in range(shards):
            tasks.append((PROPS[prop_id], name, tier, seed, s, per, deadline,
                          sorted(core.ACTIVE_KNOWN)))
    agg = {
        'evals': 0, 'skipped': 0, 'nt': set(), 'distinct': set(), 'labels': collections.Counter(),
        'excluded': collections.Counter(), 'samples': [], 'per_sub': collections.OrderedDict(),
    }
    failures = {}   # (sub, kind) -> (size, case, detail)
    nprocs = int(os.environ.get('VERIF_PROCS', '16'))
    results = []
    if tasks:
        results, died = _run_tasks(tasks, nprocs)
        for t in died:
            harness_errors.append('the worker process running sub %s shard %d died twice (killed by a signal / interpreter crash); '
                                  'its cases are not part of this result' % (t[1], t[4]))
    results.sort(key=lambda s: (s['sub'], s['shard']))
    for st in results:
        ps = agg['per_sub'].setdefault(st['sub'], {'evaluations': 0, 'distinct_nontrivial': set(),
                                                   'skipped_after_budget': 0})
        ps['evaluations'] += st['evals']
        ps['distinct_nontrivial'] |= {st['sub'] + h for h in st['nt']}
        ps['skipped_after_budget'] += st['skipped']
        agg['evals'] += st['evals']
        agg['units'] = agg.get('units', 0) + st.get('units', 0)
        agg['skipped'] += st['skipped']
        agg['nt'] |= {st['sub'] + h for h in st['nt']}
        agg['distinct'] |= {st['sub'] + h for h in st['distinct']}
        agg['labels'].update({'%s.%s' % (st['sub'], k): v for k, v in st['labels'].items()})
        agg['excluded'].update(st['excluded'])
        for c in st['samples']:
            if sum(1 for s in agg['samples'] if s.get('sub') == st['sub']) < 2:
                agg['samples'].append({'sub': st['sub'], 'case': c})
        for h in st['harness']:
            harness_errors.append('sub %s shard %d: %s\ncase=%s' % (
                st['sub'], st['shard'], h['error'], core.short(h['case'], 600)))
        for kind, (size, case, detail) in st['failures'].items():
            cur = failures.get((st['sub'], kind))
            if cur is None or size < cur[0]:
                failures[(st['sub'], kind)] = (size, case, detail)

    # ---- 3b. optional exhaustive / special campaigns -----------------------
    extra_info = {}
    if hasattr(mod, 'extra'):
        try:
            ex = mod.extra(tier, seed, deadline)
        except Exception:
            harness_errors.append('extra campaign: ' + traceback.format_exc(limit=10))
            ex = None
        if ex:
            agg['evals'] += ex.get('evaluations', 0)
            agg['nt'] |= set(ex.get('nontrivial_hashes', ()))
            agg['labels'].update(ex.get('labels', {}))
            agg['excluded'].update(ex.get('excluded', {}))
            for c in ex.get('samples', [])[:3]:
                agg['samples'].append(c)
            for (subname, kind, case, detail) in ex.get('failures', []):
                key = (subname, kind)
                size = len(core.canon(case))
                if key not in failures or size < failures[key][0]:
                    failures[key] = (size, case, detail)
            extra_info = ex.get('info', {})

    # ---- 3c. the same search, at a fifth of the size, in an optimized interpreter (python -O) ------------------
    # environment dimension: validation written as `assert` or under `if __debug__:` silently disappears there
    opt_pass = None
    child_lines = []
    if not sys.flags.optimize and os.environ.get('VERIF_OPT_PASS', '1') != '0':
        import subprocess
        import tempfile
        fd, tmp_ev = tempfile.mkstemp(prefix='verif_opt_', suffix='.json')
        os.close(fd)
        env = dict(os.environ, VERIF_SCALE='0.2', VERIF_EVIDENCE=tmp_ev, VERIF_OPT_PASS='0',
                   VERIF_BUDGET_S=str(max(20.0, min(budget * 0.4, deadline - time.time()))))
        try:
            cp = subprocess.run([sys.executable, '-O', '-B', '-m', 'vlib.main', prop_id, tier], env=env, capture_output=True, text=True,
                                timeout=budget + 600)
            child_ev = json.load(open(tmp_ev)) if os.path.getsize(tmp_ev) else {}
            opt_pass = {'python_flags': ['-O'], 'evaluations': child_ev.get('coverage', {}).get('evaluations', 0),
                        'distinct_nontrivial': child_ev.get('coverage', {}).get('distinct_nontrivial', 0),
                        'failure_kinds': child_ev.get('coverage', {}).get('failure_kinds', []), 'exit': cp.returncode}
            if cp.returncode == 1:
                keep = False
                for line in cp.stdout.splitlines():
                    if line.startswith('FAILURE') or line.startswith('replay '):
                        keep = True
                        child_lines.append('[python -O pass] ' + line)
                    elif line.startswith('VIOLATION'):
                        child_lines.append(line)
                        keep = False
                    elif keep and line.startswith('  '):
                        child_lines.append(line)
                    else:
                        keep = False
            elif cp.returncode != 0:
                harness_errors.append('optimized-interpreter pass exited %r: %s' % (cp.returncode, (cp.stdout + cp.stderr)[-1500:]))
        except Exception:       # noqa
            harness_errors.append('optimized-interpreter pass: ' + traceback.format_exc(limit=5))
        finally:
            try:
                os.unlink(tmp_ev)
            except OSError:
                pass

    # ---- 4. shrink + report ------------------------------------------------
    vio_lines = []
    for line in child_lines:
        if line.startswith('VIOLATION'):
            vio_lines.append(line)
        else:
            _print(line)
    for (sub_name, case, out, rpath) in violations:
        _print('replay %s FAILS: kind=%s %s' % (rpath, out.kind, out.detail))
        vio_lines.append('VIOLATION property=%s replay=%s' % (prop_id, os.path.relpath(rpath, core.VERIF_DIR)))
    max_shrink = 300 if tier == 'quick' else 1500
    for (sub_name, kind), (size, case, detail) in sorted(failures.items(), key=lambda kv: kv[1][0])[:6]:
        sub = mod.SUBS[sub_name]
        small, n_ev, out = case, 0, None
        if kind not in ('hang', 'memory'):
            res = _shrink_in_child(PROPS[prop_id], sub_name, case, kind, max_shrink, 40 if tier == 'quick' else 240)
            if res is not None:
                small, n_ev = res[0], res[1]
                out = core.Outcome()
                out.fail(res[2], res[3])
        if out is None:
            # not reproducible deterministically (or the shrinking process died) -> still report the original
            small = case
            out = core.Outcome()
            out.fail(kind, detail)
        path = core.write_replay(prop_id, sub_name, small, out)
        _print('FAILURE sub=%s kind=%s (shrunk with %d evaluations)\n  case=%s\n  %s' % (
            sub_name, kind, n_ev, core.short(small, 800), out.detail))
        vio_lines.append('VIOLATION property=%s replay=%s' % (prop_id, os.path.relpath(path, core.VERIF_DIR)))
    if len(failures) > 6:
        _print('(%d further failure kinds not shrunk: %s)' % (
            len(failures) - 6, sorted(k for (_, k) in failures)[:20]))

    # ---- 5. evidence ---------------------------------------------------------
    wall = time.time() - t0
    samples = agg['samples'][:6]
    if not samples:
        samples = [{'note': 'no non-trivial sample small enough to print'}]
    per_sub = {k: {'evaluations': v['evaluations'],
                   'distinct_nontrivial': len(v['distinct_nontrivial']),
                   'skipped_after_budget': v['skipped_after_budget']}
               for k, v in agg['per_sub'].items()}
    cov = {
        'evaluations': agg['evals'],
        'distinct_nontrivial': len(agg['nt']),
        'distinct_cases': len(agg['distinct']),
        'inner_executions': agg.get('units', 0),
        'rule': getattr(mod, 'RULE', '') + (' Generator classes added after the seeded-change rounds: %s.' % EXTRA[prop_id] if prop_id in EXTRA else ''),
        'samples': samples,
        'per_sub': per_sub,
        'labels': dict(sorted(agg['labels'].items())),
        'replays_run': replays_run,
        'known_findings_reproduced': known_reproduced,
        'known_findings_stale': known_stale,
        'excluded_by_known_finding': dict(agg['excluded']),
        'skipped_after_budget': agg['skipped'],
        'failure_kinds': sorted('%s:%s' % k for k in failures),
    }
    cov.update(extra_info)
    if opt_pass is not None:
        cov['optimized_interpreter_pass'] = opt_pass
    ev = {
        'property_id': prop_id, 'tier': tier, 'seed': seed,
        'level': getattr(mod, 'LEVEL', 'exploration'),
        'coverage': cov,
        'assumptions': list(getattr(mod, 'ASSUMPTIONS', [])),
        'wall_s': round(wall, 2),
        'violations': len(vio_lines),
        'repo': core.REPO,
    }
    os.makedirs(os.path.join(core.VERIF_DIR, 'evidence'), exist_ok=True)
    evpath = os.environ.get('VERIF_EVIDENCE') or os.path.join(core.VERIF_DIR, 'evidence', prop_id + '.json')
    with open(evpath, 'w') as f:
        json.dump(ev, f, indent=1, sort_keys=True, default=str)
        f.write('\n')

    _print('%s %s seed=%d: %d cases (%d distinct non-trivial), %d replays, %.1fs' % (
        prop_id, tier, seed, agg['evals'], len(agg['nt']), replays_run, wall))
    for lab, n in sorted(agg['labels'].items()):
        _print('   %-50s %d' % (lab, n))
    if agg['excluded']:
        _print('   excluded by known finding: %s' % dict(agg['excluded']))
    if harness_errors:
        for h in harness_errors[:5]:
            _print('HARNESS-ERROR ' + h)
    for line in vio_lines:
        _print(line)
    if vio_lines:
        return 1
    if harness_errors:
        return 2
    return 0


if __name__ == '__main__':
    sys.exit(main())
