#!/bin/sh
# Developer tool: run every registered check at the given tier (default quick) and summarise.
cd "$(dirname "$0")/.." || exit 2
TIER=${1:-quick}
for id in C01 C02 C03 C04 C05 C06 C07 C08 C09 C10 C11 C12 C13 C14 C15 C16 C17 C18 C19 C20; do
  s=$(date +%s)
  ./check $id $TIER > /tmp/run_all_$id.log 2>&1
  rc=$?
  e=$(date +%s)
  echo "$id exit=$rc $((e-s))s $(grep -c '^VIOLATION' /tmp/run_all_$id.log) violations; $(grep 'seed=' /tmp/run_all_$id.log | head -1)"
done
