#!/bin/sh
# Developer tool: re-evaluate every seeded change under seeded/ against the current checks (3 at a time).
# usage: tools/eval_all_seeded.sh [tier]      (results: seeded/<id>/meta.json, summary on stdout)
cd "$(dirname "$0")/.."
tier=${1:-quick}
ls seeded | xargs -P 3 -I{} sh -c '
  id={}; prop=$(/venv/bin/python -c "import json;m=json.load(open(\"seeded/$id/meta.json\"));print(m.get(\"checked_with\") or m[\"property\"])")
  t=$(/venv/bin/python -c "import json;m=json.load(open(\"seeded/$id/meta.json\"));print(m.get(\"tier\") or \"'"$tier"'\")")
  VERIF_PROCS=6 tools/try_seeded.py seeded/$id $prop $id --tier $t --keep > .cache/seed_eval_$id.log 2>&1
  grep -h "\"caught_by\"" .cache/seed_eval_$id.log | sed "s/^/$id /"
'
