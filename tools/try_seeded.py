#!/venv/bin/python
"""Developer tool: confirm and evaluate an independently seeded change.

  tools/try_seeded.py <dir with patch.diff, demo.py, README.md> <PROPERTY> <name> [--tier quick|thorough] [--keep]

1. applies patch.diff to a scratch copy of /repo (must apply cleanly to the current HEAD),
2. runs the repository test-suite on the scratch copy (must pass),
3. runs demo.py against the scratch copy (must fail) and against /repo (must pass),
4. runs ./check <PROPERTY> <tier> against the scratch copy (VERIF_REPO) and records whether it reports a VIOLATION,
5. with --keep (and 1-3 confirmed) stores everything as /verif/seeded/<name>/ with meta.json.
The scratch copy is removed afterwards.  Re-run with an existing seeded/<name> directory to re-evaluate it.
"""
import json
import os
import shutil
import subprocess
import sys
import tempfile
import time

V = os.path.dirname(os.path.dirname(os.path.abspath(__file__)))
REPO = '/repo'


def sh(cmd, **kw):
    return subprocess.run(cmd, capture_output=True, text=True, **kw)


def main():
    args = sys.argv[1:]
    tier = 'quick'
    keep = False
    if '--tier' in args:
        i = args.index('--tier')
        tier = args[i + 1]
        del args[i:i + 2]
    if '--keep' in args:
        keep = True
        args.remove('--keep')
    src, prop, name = args[:3]
    src = os.path.abspath(src)
    meta = {'property': prop, 'name': name, 'evaluated_at_repo_commit': sh(['git', '-C', REPO, 'rev-parse', '--short', 'HEAD']).stdout.strip()}
    tmp = tempfile.mkdtemp(prefix='vseed_')
    try:
        for d in ('boltons', 'tests'):
            shutil.copytree(os.path.join(REPO, d), os.path.join(tmp, d), ignore=shutil.ignore_patterns('__pycache__'))
        for f in ('pyproject.toml', 'setup.cfg', 'tox.ini', 'README.md'):
            if os.path.exists(os.path.join(REPO, f)):
                shutil.copy(os.path.join(REPO, f), tmp)
        p = sh(['patch', '-p1', '-s', '-d', tmp, '-i', os.path.join(src, 'patch.diff')])
        if p.returncode != 0:
            print('PATCH DOES NOT APPLY:', p.stdout[-300:], p.stderr[-300:])
            return 2
        env = dict(os.environ, PYTHONPATH=tmp, PYTHONDONTWRITEBYTECODE='1')
        try:
            t = sh(['/bin/sh', '-c', 'ulimit -v 6000000; exec /venv/bin/python -m pytest -q -p no:cacheprovider tests'], cwd=tmp, env=env, timeout=600)
            meta['repo_tests'] = 'pass' if t.returncode == 0 else 'FAIL: ' + (t.stdout.strip().splitlines() or ['?'])[-1]
        except subprocess.TimeoutExpired:
            meta['repo_tests'] = 'FAIL: hang'
        try:
            d1 = sh(['/venv/bin/python', os.path.join(src, 'demo.py')], env=env, cwd=src, timeout=300)
            meta['demo_on_changed_tree'] = 'fails (exit %d)' % d1.returncode if d1.returncode != 0 else 'PASSES (not a demonstration)'
        except subprocess.TimeoutExpired:
            meta['demo_on_changed_tree'] = 'fails (hang)'
        d2 = sh(['/venv/bin/python', os.path.join(src, 'demo.py')], env=dict(os.environ, PYTHONPATH=REPO, PYTHONDONTWRITEBYTECODE='1'), cwd=src, timeout=300)
        meta['demo_on_unchanged_tree'] = 'passes' if d2.returncode == 0 else 'FAILS (exit %d): %s' % (d2.returncode, (d2.stderr or d2.stdout)[-300:])
        valid = meta['repo_tests'] == 'pass' and meta['demo_on_changed_tree'].startswith('fails') and meta['demo_on_unchanged_tree'] == 'passes'
        meta['confirmed'] = valid
        env2 = dict(os.environ, VERIF_REPO=tmp, VERIF_EVIDENCE=os.path.join(tmp, 'evidence.json'))
        t0 = time.time()
        try:
            c = sh([os.path.join(V, 'check'), prop, tier], cwd=V, env=env2, timeout=3000)
            out = c.stdout
            rc = c.returncode
        except subprocess.TimeoutExpired:
            out, rc = '', 'timeout'
        kinds = [l.split('kind=')[1].split(' (')[0] + (' [python -O pass]' if l.startswith('[python -O') else '') for l in out.splitlines() if 'FAILURE sub=' in l and 'kind=' in l]
        meta['check'] = {'cmd': './check %s %s' % (prop, tier), 'exit': rc, 'wall_s': round(time.time() - t0, 1),
                         'violations': sum(1 for l in out.splitlines() if l.startswith('VIOLATION')), 'failure_kinds': kinds[:6]}
        meta['caught_by'] = ('%s %s (%s)' % (prop, tier, ', '.join(kinds[:3]))) if rc == 1 else 'NOT CAUGHT by %s %s (exit %r)' % (prop, tier, rc)
        print(json.dumps(meta, indent=1))
        if keep and valid:
            dst = os.path.join(V, 'seeded', name)
            os.makedirs(dst, exist_ok=True)
            for f in ('patch.diff', 'demo.py', 'README.md'):
                if os.path.exists(os.path.join(src, f)) and os.path.abspath(os.path.join(src, f)) != os.path.abspath(os.path.join(dst, f)):
                    shutil.copy(os.path.join(src, f), dst)
            old = {}
            mp = os.path.join(dst, 'meta.json')
            if os.path.exists(mp):
                old = json.load(open(mp))
            # the property the change was written against stays on record; 'checked_with' is the check that was run
            meta['tier'] = tier
            meta['checked_with'] = prop
            meta['property'] = old.get('property') or prop
            readme = open(os.path.join(dst, 'README.md')).read() if os.path.exists(os.path.join(dst, 'README.md')) else ''
            meta['needs'] = old.get('needs') or readme.strip().replace('\n', ' ')[:400]
            meta['what_was_run'] = ['patch -p1 on a scratch copy of /repo', 'pytest tests (scratch copy)', 'demo.py on scratch copy and on /repo',
                                    'VERIF_REPO=<scratch> ./check %s %s' % (prop, tier)]
            hist = old.get('history', [])
            hist.append({'commit': sh(['git', '-C', V, 'rev-parse', '--short', 'HEAD']).stdout.strip(), 'caught_by': meta['caught_by']})
            meta['history'] = hist
            json.dump(meta, open(mp, 'w'), indent=1, sort_keys=True)
        return 0 if rc == 1 else 1
    finally:
        shutil.rmtree(tmp, ignore_errors=True)


if __name__ == '__main__':
    sys.exit(main())
