#!/venv/bin/python
"""Developer tool (never used at check time): record a fixed defect or a known finding.

tools/record.py fixed C19 <commit> <out/replay.json> <name> "<what failed>"
tools/record.py known C08 <signature> <out/replay.json> <name> "<what fails>"
tools/record.py regress C19 <out/replay.json> <name>          (plain regression replay)
"""
import json, os, shutil, sys
V = os.path.dirname(os.path.dirname(os.path.abspath(__file__)))
kf = os.path.join(V, 'known_findings.json')
data = json.load(open(kf)) if os.path.exists(kf) else {'findings': []}
mode, pid = sys.argv[1], sys.argv[2]
if mode == 'regress':
    src, name = sys.argv[3], sys.argv[4]
    dst = os.path.join('replays', pid, name + '.json')
    os.makedirs(os.path.join(V, 'replays', pid), exist_ok=True)
    shutil.copy(os.path.join(V, src), os.path.join(V, dst))
    sys.exit(0)
key, src, name, what = sys.argv[3:7]
dst = os.path.join('replays', pid, name + '.json')
os.makedirs(os.path.join(V, 'replays', pid), exist_ok=True)
if os.path.abspath(os.path.join(V, src)) != os.path.abspath(os.path.join(V, dst)):
    shutil.copy(os.path.join(V, src), os.path.join(V, dst))
if mode == 'fixed':
    e = {'status': 'fixed', 'property': pid, 'commit': key, 'what': what, 'replay': dst,
         'line': 'fixed: property=%s %s %s' % (pid, key, what)}
else:
    e = {'status': 'known', 'property': pid, 'signature': key, 'what': what, 'replay': dst,
         'line': 'KNOWN-FINDING: property=%s %s' % (pid, what)}
data['findings'] = [x for x in data['findings'] if x['replay'] != dst] + [e]
data['findings'].sort(key=lambda x: (x['property'], x['replay']))
json.dump(data, open(kf, 'w'), indent=1, sort_keys=True)
print('recorded', e['line'])
