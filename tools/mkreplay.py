#!/venv/bin/python
"""Developer tool: tools/mkreplay.py C01 omd <name> '<case json>'  -> replays/C01/<name>.json and runs it."""
import json, os, subprocess, sys
V = os.path.dirname(os.path.dirname(os.path.abspath(__file__)))
pid, sub, name, cj = sys.argv[1:5]
case = json.loads(cj)
case.setdefault('sub', sub)
d = os.path.join(V, 'replays', pid)
os.makedirs(d, exist_ok=True)
path = os.path.join(d, name + '.json')
json.dump({'property': pid, 'sub': sub, 'case': case, 'kind': None, 'detail': 'hand-written regression case'},
          open(path, 'w'), indent=1, sort_keys=True)
sys.exit(subprocess.call([os.path.join(V, 'check'), pid, '--replay', os.path.relpath(path, V)], cwd=V))
