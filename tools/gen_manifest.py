#!/venv/bin/python
"""Developer tool: (re)generate MANIFEST.json from the table below and validate it."""
import json, os, sys
V = os.path.dirname(os.path.dirname(os.path.abspath(__file__)))

BASELINE_CMD = ("cd /repo && /venv/bin/python -m pytest -ra -q -p no:cacheprovider --timeout=900 "
                "--continue-on-collection-errors")

# id -> (category, technique, text, note, design_ref)
CHECKS = {
    'C19': ('exploration',
            'Hypothesis-generated texts/files against str.splitlines, bytes.splitlines and json.loads reference oracles; metamorphic over block sizes',
            'Random search (Hypothesis, seeded, sharded over 16 processes) over texts with all eight line-break forms, files read in reverse at block sizes 1..len+1, and JSON Lines files with records placed around the 4096-byte block edge; each case is compared with an independent reference (str.splitlines / bytes.splitlines / json.loads of the good lines). Exploration is the right level: the domain is unbounded text, failures are input-shape dependent (break adjacency, block edge inside a multi-byte char) and the generator is biased to exactly those shapes; label counts in the evidence show they are reached.',
            'Trusts CPython str.splitlines/bytes.splitlines/json as oracles; lone \\r and \\x1c-\\x1e are outside the generated domain (not in the statement).',
            'DESIGN.md section 2, C19'),
    'C01': ('exploration',
            'model-based testing: Hypothesis-generated operation histories run in lock-step against a list-of-pairs reference model, all reads compared after every step',
            'Random histories (constructor form + up to 25/40 operations incl. one-shot iterators, update forms, |=, pops, popitem, copy/deepcopy/pickle replacing the object under test) over a pool of colliding keys; after every step ~45 reads (items/keys/values multi on/off, get/getlist/[]/in for every pool key, reversed, todict, counts, inverted, sorted, sortedvalues, views, repr, ==/!= against 10 perturbed OMDs and dicts) are compared with an independent PairList model. Exploration is the right level for an unbounded history space; key/value pools are small so collisions and multi-value keys dominate.',
            'Trusts the 60-line PairList model; popitem is only loosely constrained; update_extend(self) and NaN keys not generated; FastIterOrderedMultiDict out of scope.',
            'DESIGN.md section 2, C01'),
    'C17': ('exploration',
            'model-based testing: Hypothesis-generated histories applied to forward or inverse objects of several live instances, compared with a dict-bijection / set-of-pairs reference after every step; FrozenDict mutator matrix',
            'Random histories (<=20/30 ops, each aimed at o or o.inv, at any of up to 4 live instances created by copy()/construction/update from one another) against a reference bijection (OneToOne) or set of pairs (ManyToMany); after every step every live instance is checked on both sides (contents, exact inverse, no empty entries, inv.inv identity, per-key reads), which is what exposes aliasing between instances. FrozenDict: all 14 mutator forms must raise TypeError and leave the content unchanged; hash/eq under two insertion orders; unhashable values; updated/copy/deepcopy/pickle.',
            'Trusts the reference models; popitem and replace-onto-existing-key are only constrained to be consistent; update(**kw) without positional is not generated.',
            'DESIGN.md section 2, C17'),
    'C02': ('exploration',
            'model-based testing: Hypothesis-generated dict-API histories on LRI/LRU against an OrderedDict+counters reference; black-box eviction-order probe',
            'Random configurations (class, max_size, on_miss, initial values) and histories (<=30/80 ops over a key pool of max_size+3, up to 3 live caches created by copy()) against a reference cache; after every step contents, len<=max_size, membership, the three counters, the list of on_miss calls, return values/exception types and ==/!= against dicts and another cache are compared for every live cache; at the end each cache is probed by inserting fresh keys and recording which key disappears, the victim sequence must equal the reference recency order. Exploration is the right level: the history space is unbounded; small pools make evictions and re-insertions frequent (label counts in the evidence).',
            'Trusts the reference model; iteration order and popitem choice are not compared; counters of a copy are tracked from the values read at creation.',
            'DESIGN.md section 2, C02'),
    'C11': ('exploration',
            'model-based testing: Hypothesis-generated list/set-style histories on IndexedSet against a plain list + Python set algebra, with macro-operations aimed at the dead-interval table',
            'Random histories (<=25/40 ops) on small sets (0-12 items over a 14-item universe) and large ones (40/100/400/3500 items, so the dead-interval bookkeeping is exercised below and above its compaction thresholds: >1/8 dead, >384 intervals), including macro-operations that remove runs, tails and slots adjacent to earlier removals in every order; after every step list(s), len, reversed, s[i] for every valid index (sampled above 64 items, always including the neighbourhood of recent removals), index() of every item, membership/count and drawn slices are compared with a plain list; n-ary union/intersection/difference, symmetric_difference, operators (also reflected with a real set on the left), in-place forms and predicates are compared with Python sets including result order.',
            'Trusts list/set semantics of CPython as the oracle; indices outside the valid range, negative slice steps and self-as-operand are not generated.',
            'DESIGN.md section 2, C11'),
    'C10': ('exploration',
            'differential + model-based testing: Hypothesis-generated add/remove/pop/peek histories run in lock-step on both queue classes and a reference list model, full drain compared; BarrelList compared with list',
            'Random histories with tie-heavy priorities and frequent re-adds/removes are applied to HeapPriorityQueue, SortedPriorityQueue and a reference (min over live (effective priority, arrival counter)); every return value/exception type and len is compared at each step and both queues are drained at the end. Because the sorted back end only splits into sub-lists above ~22000 entries, histories are run (a) with the BarrelList split factor scaled down so splitting happens with ~10 entries, (b) at the real factor with 23k-60k bulk entries (6 cases in quick, 320 in thorough), and (c) the BarrelList itself is compared with list for insert/append/extend/pop/getitem/index/bisect.insort histories.',
            'Scaling relies on the tuning constant BarrelList._size_factor (falls back to real scale if absent); reference model trusted; custom priority_key not generated.',
            'DESIGN.md section 2, C10'),
    'C20': ('exploration',
            'model-based testing: Hypothesis-generated add/update streams (random skewed and adversarial bucket plans) against an exact Counter; count bounds and view consistency checked after every call',
            'Random thresholds and streams of up to 600 (quick) / 3000 (thorough) additions through add, update(iterable), update(mapping), update(**counts) and mixed forms, including bucket-aligned adversarial plans (groups of w//m fresh keys seen m times, then fresh singletons) that keep the most keys alive. An exact collections.Counter is kept beside the counter: total, no over-count, under-count <= floor(total/floor(1/threshold)), presence, common+uncommon == total, items/keys/values/elements/most_common(n) consistency and descending order, and the size clause are checked (all keys around every compaction boundary and every 7th call, touched keys otherwise). The size clause len <= 2/threshold is genuinely false for lossy counting (known finding, replayed on every run); it is only excused while the tracked key set is exactly what textbook lossy counting tracks for the stream, anything else (mis-timed or skipped compaction) is still a violation.',
            'Trusts collections.Counter and a 12-line textbook lossy-counting reference (used only to classify the known size finding).',
            'DESIGN.md section 2, C20'),
    'C18': ('exploration',
            'differential testing: one Hypothesis-generated file-operation history run in lock-step on io.BytesIO/io.StringIO and on spooled files at 6 max_size values (rolled early / mid-way / never); MultiFileReader vs slicing the concatenation',
            'Random histories (appending writes, read(n)/read(), readline, readlines, next/iteration, seek, tell, getvalue, len, rollover) over contents with 1-4 byte UTF-8 characters and all line endings are executed on the io object and on Spooled*IO objects with max_size in {1, 2, len/2, len, len+1, 10^6}; return values, tell() and getvalue() must equal the io object (observation after each step is itself varied all/tell/none because getvalue() seeks and flushes and can mask defects). MultiFileReader: contents partitioned into 1-5 members (BytesIO/StringIO/real files, empty members) read by sized/unsized reads and seek(0) against a cursor over the concatenation; mixed bytes/text must raise ValueError. Known finding: SpooledStringIO line reading follows codecs (splits at every str.splitlines boundary) - excused only when the result equals exactly the codecs-style split and all variants agree.',
            'Trusts io.BytesIO/io.StringIO as reference; SpooledStringIO.readline(size), readline(0) and non-appending writes are outside the generated domain.',
            'DESIGN.md section 2, C18'),
    'C09': ('exploration',
            'Hypothesis-generated sequences and parameters per helper against slicing / str.split / str.strip / counting reference oracles; exhaustive small-parameter sweep of chunk_ranges',
            'Five sub-checks: chunked/chunked_iter (list, tuple, one-shot iterators, str, bytes; size drawn relative to the length; count; fill), windowed/pairwise (+_iter, fill/end), split/split_iter with scalar, set, list, callable and None separators and maxsplit - the oracle is literally str.split on an encoding of the items as characters - plus lstrip/rstrip/strip vs str.*strip, unique/redundant/bucketize/partition against first-occurrence and counting references (callable, attribute-name and list keys, value_transform, key_filter), and chunk_ranges against the clauses of the statement (random large parameters plus an exhaustive sweep of all small parameter tuples: 16 000 in quick, 113 000 in thorough).',
            'Trusts CPython str.split/str.strip/slicing; parameters outside the documented domain (size < 1 other than the ValueError check, negative maxsplit, overlap >= chunk_size) are not generated.',
            'DESIGN.md section 2, C09'),
    'C08': ('exploration',
            'Hypothesis-generated construction programs (shared sub-objects, reference cycles) and visit decision tables; oracle = memoised recursive rebuild compared by a lock-step graph walk that also checks the sharing relation; research paths replayed through get_path',
            'Inputs are generated as programs that build nested dict/list/tuple/set/frozenset structures by referring to earlier objects (aliasing/DAGs by construction, hashability enforced constructively) plus patch instructions that close cycles. remap output is compared with an independent recursive reference: same types, dict key order, sequence order, set members, identical sharing (bijection of node identities), identical visit call log; default callbacks give an equal copy sharing no mutable container; the input snapshot (structure + identities) is unchanged; every research (path, value) is fetched again with get_path (identity). Paths through sets are a recorded known finding (enumeration index is not subscriptable).',
            'Trusts the 35-line recursive reference; cycles whose back-edge targets a tuple/frozenset under construction are only checked for termination/type/non-mutation; visit functions are decision tables, not arbitrary code.',
            'DESIGN.md section 2, C08'),
    'C15': ('exploration',
            'Hypothesis-generated parameter tuples and random draws (random.random replaced by generated values) against the stated recurrence; targeted class of stops at floating-point neighbours of start*factor^n',
            'Valid parameters: the yielded list must equal the reference recurrence (start, then min(prev*factor, stop); 0 followed by min(1, stop)) value for value, be non-decreasing and capped, have exactly count values (>= 260 lazily for repeat), end at stop for the default count, and backoff == list(backoff_iter). Jitter: every value within [b, b(1-j)] (4 ulp tolerance), equal to b for draw 0.0, and computed from the un-jittered base (no feedback). Invalid parameters (7 classes) must raise ValueError on the first next() with nothing yielded. A third of the cases put stop at start*factor^n (repeated multiplication) -1..+2 ulps, where the logarithm-derived default count rounds.',
            'Finite floats; factor == 1 with default count and default counts above 2000 are not generated.',
            'DESIGN.md section 2, C15'),
    'C14': ('exploration',
            'Hypothesis-generated argument lists executed by real POSIX shells (dash, bash) and parsed by shlex and an independent MS C runtime argv parser; round-trip/canonical-form oracles for integer ranges; gzip round trips cross-checked with the gzip module',
            'sh: every generated argument list is quoted with args2sh and the text is run by /bin/sh (dash) and bash as `set -- <text>; printf "%s\\0" "$#" "$@"` in a directory containing files that globs would match, with $A set, HOME redirected and (bash) failglob on, so any unquoted expansion character shows; shlex.split is a second oracle. cmd: args2cmd text is parsed by a parser written from the Microsoft specification (2n/2n+1 backslashes before a quote, quoted regions, "" in quotes). Integer ranges: parse(format(L)) == sorted(set(L)), canonical maximal-run form, int_ranges_from_int_list, complement_int_list for windows around and beyond the data, with alternative delimiters. gzip: levels 1-9, sizes incl. buffer boundaries (4096, 32768, 65536 +-1), both directions against the gzip module.',
            'Trusts dash/bash, shlex, the gzip module and the hand-written MS parser; NUL and lone surrogates excluded.',
            'DESIGN.md section 2, C14'),
    'C13': ('exploration',
            'exhaustive enumeration of a finite signature family x all call shapes (differential against the wrapped function itself) plus Hypothesis-generated larger signatures',
            'Every run enumerates all 1120 signatures with <=3 positional parameters (every trailing-default position), *args, <=2 keyword-only parameters (each with/without default), **kwargs, annotations and async, compiles each from source, wraps it with wraps() and update_wrapper() and compares: inspect.signature(follow_wrapped=False), __name__/__doc__/__module__/__wrapped__, coroutine-ness, and all call shapes (0..n+2 positional x every subset of parameter names + an unknown keyword: 182k calls) - TypeError iff the original raises TypeError, otherwise identical bound arguments (coroutines driven to completion). injected (each parameter, pairs, an absent name) and expected (bare, pair, mapping, mutable default, existing name) are checked on the own signature. Hypothesis adds signatures with up to 6 positional / 4 keyword-only parameters, arbitrary identifiers, rich defaults, string annotations, lambdas and function attributes.',
            'exhaustive: true only for the stated finite core; positional-only parameters out of scope; the known finding (expected bare name after defaults shifts a default) is excused only when names and kinds are intact and exactly that shift happened.',
            'DESIGN.md section 2, C13'),
    'C06': ('exploration',
            'Hypothesis-generated component texts / RFC 3986 grammar derivations / arbitrary and salted strings; oracles: strict RFC 3986 per-component syntax + exact re-parse recovery (round trip), reference and urllib unquote (differential), render-parse fixed point (metamorphic), exception-type totality; exhaustive significant-character x component matrix',
            '(a) random component texts (every RFC delimiter, %, %41, %zz, ;, +, &, =, space, controls, non-ASCII incl. combining and astral) placed in username/password/segments/query keys+values/fragment with registered and unregistered schemes, LDH/IDN/IPv4/IPv6 hosts and ports, built by from_parts and by attribute assignment; the fully quoted text must be ASCII, split by the RFC appendix-B regex into components whose characters are legal at that position, and re-parse to exactly the NFC inputs. Every run also enumerates the full matrix of ~75 significant strings x 6 components x 2 positions. (b) quote_*_part/unquote round trips and unquote against a reference decoder and urllib. (c) URIs and relative references derived from the RFC 3986 grammar: fully quoted (and, when no decoded component contains %, minimally quoted) render(parse) is a fixed point. (d) URL(text)/URL(bytes) return or raise URLParseError only; find_all_links (all option combinations) never raises.',
            'Trusts the hand-written RFC regexes and urllib.parse.unquote; hosts limited to IDNA-encodable names and IP literals; lone surrogates excluded; a pair with empty key and no value is not representable and not generated.',
            'DESIGN.md section 2, C06'),
    'C07': ('exploration',
            'differential testing against an independent text-level implementation of RFC 3986 5.2.2-5.2.4; RFC 5.4 examples with the RFC\'s own expected results; exhaustive enumeration of short reference paths',
            'Hypothesis generates base URLs (schemes, name/IPv4/IPv6 hosts, userinfo, ports, dot-free paths with empty segments, trailing slash or empty path, query, fragment) and chains of 1-3 references (empty, fragment-only, query-only, path-absolute, path-relative over ".", "..", empty and named segments, absolute URLs). base.navigate(ref).to_text() must equal the result of the RFC pseudo-code (transform references, merge, remove_dot_segments written over strings) applied to base.to_text(), modulo "" == "/" under an authority; the result has no dot segments and is rooted, the base is unchanged (text and ==), navigate(URL(ref)) == navigate(ref), chains equal step-by-step resolution, normalize() is idempotent on arbitrary path_parts. Every run additionally replays the 39 in-domain examples of RFC 3986 5.4.1/5.4.2 with the RFC\'s expected strings (which also validates the reference) and enumerates all 24 576 reference paths of <=5 segments over {".", "..", "", "x"} (relative and absolute) against 12 base shapes.',
            'Trusts the reference resolver (itself checked against the RFC examples on every run); references with an authority or with a scheme but no host are out of scope; alphabets are rendering-invariant.',
            'DESIGN.md section 2, C07'),
    'C16': ('exploration',
            'grammar-based generation of traceback texts (round trip against the generated fields and the text itself) and generated programs imported from a temporary module (differential against traceback.extract_tb / traceback.format_exception of the same exception)',
            '(a) texts in the interpreter\'s format with 0-8 frames, per-frame optional source and position-marker lines, awkward paths (spaces, non-ASCII, <stdin>, a path containing \'", line 5, in b\'), function names like <module>/<lambda>/Class.method, type-only, one-line and multi-line messages containing ": ", quotes, \'File "\' and interior empty lines; from_string must recover every field, to_string must reproduce the text (marker lines removed, as documented), from_string(to_string()) is a fixed point, bytes input parses identically. (b) call chains of depth 1-12 mixing direct calls, lambdas, comprehensions, generator expressions, methods, multi-statement and multi-line calls, recursion, eval/exec frames, re-raise / finally / with blocks (so frame.f_lineno differs from tb_lineno), raising builtin, module-level, relabelled-module and function-local exception classes; TracebackInfo/ExceptionInfo frames must equal traceback.extract_tb, exc_msg == str(value), get_formatted() equals the interpreter\'s text without marker lines, to_dict is consistent, and ParsedException parses boltons\' own output back to the same frames. Known finding: >3 identical consecutive frames are collapsed by the interpreter only.',
            'Trusts the traceback module of the running interpreter (3.12); \\n-only line separation; SyntaxError, chaining, notes and groups excluded.',
            'DESIGN.md section 2, C16'),
    'C12': ('exploration',
            'scripted-socket harness: Hypothesis-generated byte streams, delivery scripts (chunk sizes, socket timeouts, virtual-clock jumps) and call sequences; oracles: reference semantics on the remaining stream, metamorphic all-at-once delivery, byte-conservation invariant after every call',
            'BufferedSocket wraps a fake socket object whose recv/send follow a generated script; the module clock is replaced by a virtual clock the script advances, so timeout arithmetic is deterministic. Receive side: recv_until (multi-byte delimiters, maxsize, with_delimiter), recv_size, peek, recv, recv_close, each retried after Timeout, compared (1) with reference functions of the remaining stream, (2) with the same calls on the stream delivered in one piece, and (3) by the invariant returned + getrecvbuffer() + undelivered == stream after every call and every exception. Send side: send/sendall/buffer/flush under partial sends and timeouts with accepted + getsendbuffer() == handed-in at every step and complete delivery after the final flush. Netstring: payloads (incl. ":" "," digits, NUL, empty, oversize) through write_ns over a partial-send socket and back through read_ns under 1-byte chunking.',
            'Trusts the reference functions (calibrated against the pinned code: no disagreement in 209k probe calls) and the fake socket; delimiters non-empty; n >= 1 for recv/recv_size reference comparison; no timeouts inside Netstring reads.',
            'DESIGN.md section 2, C12'),
    'C04': ('fault_enumeration',
            'Hypothesis-generated save configurations; for each, the recorded file-system event trace is replayed with a process kill (fork + os._exit after power-loss emulation) at every point before/after every event; destination content oracle after each crash plus ordering oracle on the trace',
            'Each generated configuration (text/binary, write pattern with chunks up to 70 000 bytes around the 8 KiB buffer, buffering, destination absent/present with shorter/longer/equal/empty old content, overwrite, relative/absolute path, part_file name, context-manager or explicit API) is executed in a forked child whose os.* functions, builtins.open and the returned file objects are wrapped, giving an event trace (os.open, chmod, f.write, f.flush, os.fsync, f.close, rename/link/unlink ...). Then one child per crash point (before and after every event: exhaustive for the trace) re-runs the save and is killed there; before dying, every file whose content differs from its last fsync snapshot is reverted to it (unsynced data does not survive; directory operations are durable in order). After each crash the destination must be absent-as-before, exactly old, or exactly the complete new content; after a normal exit it must be the new content with no part file. The trace itself must show one publication from the same directory after last write -> flush -> fsync. 1600 configurations / ~27 000 crash points in quick.',
            'Trusts the interposition layer (vlib/fsio.py) to see every file operation boltons performs on the sandbox (os.* attribute calls, builtins.open, file-object methods); crashes inside system calls, kernel bugs and torn directory updates are out of scope.',
            'DESIGN.md section 2, C04'),
    'C05': ('fault_enumeration',
            'Hypothesis-generated save configurations; for each, every single OS-level fault (and for half of them every pair) is injected at each faultable event of the recorded trace in a forked child; oracle on exception, destination bytes and mode, directory listing and an immediate retry',
            'Configurations cover overwrite, overwrite_part, rm_part_on_exc, text_mode, file_perms (None/600/640/444/000/755), process umask (5 values, set in the child), destination absent/present with a mode, foreign pre-existing part file, bodies that return, raise after k writes, write nothing, or let the destination appear mid-way (race for overwrite=False), and both API forms. The save runs once under the interposition layer; then an OSError (ENOSPC, EIO, EPERM, EACCES, EEXIST, EDQUOT) replaces the call at every faultable event - part-file creation, chmod, write, flush, fsync, close, link/rename - one run per event (exhaustive for the trace), and for half of the configurations one run per ordered pair of events of the faulted trace (second fault may hit the cleanup unlink). Not completed: the caller must see an exception, destination bytes and st_mode are unchanged (or those of the racing writer), no part file of this attempt remains with rm_part_on_exc, a foreign part file is untouched unless overwrite_part, and an immediate fault-free retry succeeds. Completed: new content, mode = file_perms / replaced file / 0666 & ~umask, no part file. ~900 configurations / ~12 000 fault runs in quick.',
            'Faults replace the whole call (close closes, then raises); partial kernel effects and three or more simultaneous faults are out of scope; runs as root, so permission bits are compared, not enforced.',
            'DESIGN.md section 2, C05'),
    'C03': ('exploration',
            'schedule-controlled concurrency testing: Hypothesis-generated thread programs; the harness owns the schedule through per-opcode tracing of boltons/cacheutils.py and a cooperative lock; all single pre-emption points enumerated, generated double/triple pre-emptions; linearizability oracle against the C02 reference cache',
            '2-3 real threads run generated programs of 1-3 cache operations on a shared LRI/LRU, but only the thread holding the turn runs: each worker traces itself (sys.settrace with f_trace_opcodes for frames of cacheutils.py), so the harness is called before every bytecode instruction and can hand the turn to another thread there; cacheutils.RLock is replaced by a re-entrant lock that yields the turn to its owner instead of blocking (so a missing `with self._lock` makes the interleaving effective and a held lock makes it a no-op). For every program every single pre-emption point (opcode index x every still-unfinished other thread) is enumerated, plus generated 2- and 3-pre-emption schedules: ~65 000 schedules for 256 programs in quick. After each schedule: no deadlock, every operation completed, len <= max_size, final contents and black-box eviction order obtained, and a DFS over all interleavings of the programs on the reference model must find one reproducing every return value / exception type, the final contents and the final eviction order; the cache must remain usable.',
            'CPython GIL semantics (pre-emption only between bytecodes of cacheutils.py; C-level dict operations atomic); <=3 pre-emptions and <=3x3 operations; counters not compared; relies on sys.settrace opcode events and on the module-level RLock name.',
            'DESIGN.md section 2, C03'),
}

NOT_YET = 'check not built yet in this revision of /verif (work in progress; see DESIGN.md section 8)'


sys.path.insert(0, V)
from vlib.classes import EXTRA  # noqa: E402


def main():
    props = [json.loads(l) for l in open(os.path.join(V, 'properties.jsonl'))]
    checks, na = [], []
    for p in props:
        pid = p['id']
        if pid in CHECKS:
            cat, tech, text, note, ref = CHECKS[pid]
            if pid in EXTRA:
                text = text.rstrip() + ' Generator classes added after the seeded-change rounds (DESIGN.md section 10): ' + EXTRA[pid] + '.'
            checks.append({
                'property_id': pid,
                'quick_cmd': './check %s quick' % pid,
                'thorough_cmd': './check %s thorough' % pid,
                'evidence_file': 'evidence/%s.json' % pid,
                'replay_cmd_template': './check %s --replay {path}' % pid,
                'engine': 'pbt-runner',
                'level_claimed': {'category': cat, 'text': text, 'design_ref': ref},
                'level_note': note,
                'technique': tech,
            })
        else:
            na.append({'property_id': pid, 'reason': NOT_YET})
    m = {
        'version': 1,
        'setup_cmd': ('/venv/bin/python -c "import hypothesis" 2>/dev/null || '
                      '/venv/bin/pip install -q --no-index --find-links /opt/veriftools/wheels hypothesis; '
                      '/venv/bin/python -c "import hypothesis; print(hypothesis.__version__)"'),
        'hooks': {
            'guard': 'BOLTONS_VERIF',
            'enable': 'no source hooks: all interposition (os layer, sockets, clock, locks, tracing) is done from the harness process by monkey-patching; checks import boltons from /repo (or $VERIF_REPO) working tree directly',
            'baseline_off_cmd': BASELINE_CMD,
            'source_commits': [],
            'add_only': True,
        },
        'engines': [{
            'name': 'pbt-runner', 'path': 'vlib/main.py',
            'serves_properties': [c['property_id'] for c in checks],
            'kind_free_text': 'Hypothesis-driven generated search with explicit oracles; cases are JSON, failures are shrunk by a bounded structural shrinker and saved as replay files; known findings / fixed defects in known_findings.json',
        }],
        'checks': checks,
        'not_applicable': na,
        'notes': 'Genuine defects found and repaired are fix: commits in /repo, listed (with regression replays) in known_findings.json; recorded-but-unrepaired defects are status=known there.',
    }
    with open(os.path.join(V, 'MANIFEST.json'), 'w') as f:
        json.dump(m, f, indent=1)
        f.write('\n')
    try:
        import jsonschema
        jsonschema.validate(m, json.load(open('/root/.vp/MANIFEST.schema.json')))
        print('MANIFEST valid;', len(checks), 'checks,', len(na), 'not_applicable')
    except ImportError:
        print('jsonschema not available here; run with python3-vt to validate')


if __name__ == '__main__':
    main()
