#!/venv/bin/python
"""For every 'fixed' entry of known_findings.json: re-introduce the defect (reverse-apply the
fix: commit on a scratch copy of /repo) and confirm that its regression replay fails there,
and passes on /repo itself.  Scratch copies live under /tmp and are removed."""
import json, os, shutil, subprocess, sys, tempfile
V = os.path.dirname(os.path.dirname(os.path.abspath(__file__)))
REPO = '/repo'
only = sys.argv[1:] 
bad = 0
kf = json.load(open(os.path.join(V, 'known_findings.json')))['findings']
for e in kf:
    if e['status'] != 'fixed' or (only and e['property'] not in only):
        continue
    tmp = tempfile.mkdtemp(prefix='vrev_')
    try:
        shutil.copytree(os.path.join(REPO, 'boltons'), os.path.join(tmp, 'boltons'), ignore=shutil.ignore_patterns('__pycache__'))
        diff = subprocess.run(['git', '-C', REPO, 'diff', e['commit'] + '^', e['commit'], '--', 'boltons'],
                              capture_output=True, text=True, check=True).stdout
        p = subprocess.run(['patch', '-R', '-p1', '-s', '-F3', '-d', tmp], input=diff, capture_output=True, text=True)
        if p.returncode != 0:
            # the context of an older fix has changed since (a later fix touches the lines next to it): let git do a
            # three-way revert in a scratch worktree instead
            wt = tempfile.mkdtemp(prefix='vrevwt_')
            os.rmdir(wt)
            try:
                subprocess.run(['git', '-C', REPO, 'worktree', 'add', '--detach', '-q', wt, 'HEAD'], check=True, capture_output=True)
                g = subprocess.run(['git', '-C', wt, 'revert', '--no-commit', e['commit']], capture_output=True, text=True)
                if g.returncode != 0:
                    print('CANNOT-REVERT', e['property'], e['commit'], (g.stdout + g.stderr)[-200:]); bad += 1; continue
                shutil.rmtree(os.path.join(tmp, 'boltons'))
                shutil.copytree(os.path.join(wt, 'boltons'), os.path.join(tmp, 'boltons'), ignore=shutil.ignore_patterns('__pycache__'))
            finally:
                subprocess.run(['git', '-C', REPO, 'worktree', 'remove', '--force', wt], capture_output=True)
        env = dict(os.environ, VERIF_REPO=tmp)
        r1 = subprocess.run([os.path.join(V, 'check'), e['property'], '--replay', e['replay']], cwd=V, env=env, capture_output=True, text=True)
        r2 = subprocess.run([os.path.join(V, 'check'), e['property'], '--replay', e['replay']], cwd=V, capture_output=True, text=True)
        ok = r1.returncode == 1 and r2.returncode == 0
        print('%-4s %-8s %-45s reverted:exit %d  repo:exit %d  %s' % (e['property'], e['commit'], os.path.basename(e['replay']),
              r1.returncode, r2.returncode, 'ok' if ok else 'PROBLEM'))
        bad += not ok
    finally:
        shutil.rmtree(tmp, ignore_errors=True)
print('problems:', bad)
sys.exit(1 if bad else 0)
