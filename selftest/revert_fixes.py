#!/venv/bin/python
"""For every 'fixed' entry of known_findings.json: re-introduce the defect (reverse-apply the
fix: commit on a scratch copy of /repo) and confirm that its regression replay fails there,
and passes on /repo itself.  Scratch copies live under /tmp and are removed."""
import json, os, shutil, subprocess, sys, tempfile
V = os.path.dirname(os.path.dirname(os.path.abspath(__file__)))
REPO = '/repo'
only = sys.argv[1:] 
bad = 0
kf = json.load(open(os.path.join(V, 'known_findings.json')))['findings']
for e in kf:
    if e['status'] != 'fixed' or (only and e['property'] not in only):
        continue
    tmp = tempfile.mkdtemp(prefix='vrev_')
    try:
        shutil.copytree(os.path.join(REPO, 'boltons'), os.path.join(tmp, 'boltons'), ignore=shutil.ignore_patterns('__pycache__'))
        diff = subprocess.run(['git', '-C', REPO, 'diff', e['commit'] + '^', e['commit'], '--', 'boltons'],
                              capture_output=True, text=True, check=True).stdout
        p = subprocess.run(['patch', '-R', '-p1', '-s', '-d', tmp], input=diff, capture_output=True, text=True)
        if p.returncode != 0:
            print('CANNOT-REVERT', e['property'], e['commit'], p.stdout[-200:]); bad += 1; continue
        env = dict(os.environ, VERIF_REPO=tmp)
        r1 = subprocess.run([os.path.join(V, 'check'), e['property'], '--replay', e['replay']], cwd=V, env=env, capture_output=True, text=True)
        r2 = subprocess.run([os.path.join(V, 'check'), e['property'], '--replay', e['replay']], cwd=V, capture_output=True, text=True)
        ok = r1.returncode == 1 and r2.returncode == 0
        print('%-4s %-8s %-45s reverted:exit %d  repo:exit %d  %s' % (e['property'], e['commit'], os.path.basename(e['replay']),
              r1.returncode, r2.returncode, 'ok' if ok else 'PROBLEM'))
        bad += not ok
    finally:
        shutil.rmtree(tmp, ignore_errors=True)
print('problems:', bad)
sys.exit(1 if bad else 0)
