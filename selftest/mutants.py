"""Mutants: (name, property, file, old, new).  `old` must occur exactly once in the file."""

MUTANTS = []


def M(name, prop, file, old, new):
    MUTANTS.append((name, prop, file, old, new))


D = 'boltons/dictutils.py'
# ---------------------------------------------------------------- C01
M('remove_all_keeps_map', 'C01', D,
  """            cell[PREV][NEXT], cell[NEXT][PREV] = cell[NEXT], cell[PREV]
        del self._map[k]
""", """            cell[PREV][NEXT], cell[NEXT][PREV] = cell[NEXT], cell[PREV]
""")
M('setitem_keeps_old_cells', 'C01', D,
  """        if super().__contains__(k):
            self._remove_all(k)
        self._insert(k, v)
        super().__setitem__(k, [v])""",
  """        if super().__contains__(k) and len(super().__getitem__(k)) < 3:
            self._remove_all(k)
        self._insert(k, v)
        super().__setitem__(k, [v])""")
M('poplast_keeps_empty_key', 'C01', D,
  """        v = values.pop()
        if not values:
            super().__delitem__(k)
        return v""",
  """        v = values.pop()
        return v""")
M('reversed_last_occurrence', 'C01', D,
  """            if lengths_sd(k, 1) == len(vals):
                yield k""",
  """            if lengths_sd(k, 1) == 1:
                yield k""")
M('getstate_non_multi', 'C01', D,
  """        return list(self.iteritems(multi=True))

    def __setstate__""",
  """        return list(self.iteritems(multi=False))

    def __setstate__""")
M('update_omd_no_delete', 'C01', D,
  """            for k in E:
                if k in self:
                    del self[k]
            for k, v in E.iteritems(multi=True):""",
  """            for k, v in E.iteritems(multi=True):""")
M('pop_returns_first', 'C01', D,
  """            return self.popall(k)[-1]""",
  """            return self.popall(k)[0]""")
M('setdefault_adds', 'C01', D,
  """        if not super().__contains__(k):
            self[k] = None if default is _MISSING else default
        return self[k]""",
  """        if not super().__contains__(k):
            self[k] = None if default is _MISSING else default
            return default
        return self[k]""")
M('eq_omd_len_only', 'C01', D,
  """                if selfk != otherk or selfv != otherv:
                    return False""",
  """                if selfk != otherk:
                    return False""")
M('counts_off', 'C01', D,
  """        return self.__class__((k, len(super_getitem(k))) for k in self)""",
  """        return self.__class__((k, len(set(map(id, super_getitem(k))))) for k in self)""")
M('sortedvalues_reverse_flag', 'C01', D,
  """        sorted_val_map = {k: sorted(v, key=key, reverse=(not reverse))""",
  """        sorted_val_map = {k: sorted(v, key=key, reverse=reverse)""")

S = 'boltons/strutils.py'
J = 'boltons/jsonutils.py'
# ---------------------------------------------------------------- C19
M('drop_x85', 'C19', S, r"""(\r\n|\n|\x0b|\f|\r|\x85|""", r"""(\r\n|\n|\x0b|\f|\r|""")
M('no_final_empty', 'C19', S,
  """        if end == len_text:
            yield ''
""", """        if end == len_text and start == 0:
            yield ''
""")
M('crlf_as_two', 'C19', S, r"""(\r\n|\n|\x0b|\f|\r|""", r"""(\n|\x0b|\f|\r|""")
M('buff_last_line', 'C19', J, """        buff = lines[0]
    if buff:""", """        buff = lines[-1] if len(lines) > 7 else lines[0]
    if buff:""")
M('no_empty_check', 'C19', J, """        if len(lines) < 2 or lines[0] == empty_bytes:
            continue""", """        if len(lines) < 2:
            continue""")
M('decode_per_block', 'C19', J, """        cur = file_obj.read(read_size)
        buff = cur + buff""", """        cur = file_obj.read(read_size)
        if encoding:
            cur = cur.decode(encoding, 'ignore').encode(encoding)
        buff = cur + buff""")
M('jsonl_magic_size', 'C19', J, """            if rs == 1.0:
                self._cur_pos = size
""", """            if rs == 1.0:
                self._cur_pos = size
                if size % 4096 == 1:
                    fo.seek(size - 1)
""")
M('jsonl_skip_non_dict', 'C19', J, """            if not line:
                continue
            try:""", """            if not line or (self._reverse and line[:1] in ('n', b'n')):
                continue
            try:""")

# ---------------------------------------------------------------- C17
M('oto_setitem_no_evict_value', 'C17', D,
  """        if val in self.inv:
            del self.inv[val]
        dict.__setitem__(self, key, val)""",
  """        dict.__setitem__(self, key, val)""")
M('oto_pop_keeps_inv', 'C17', D,
  """        if key in self:
            dict.__delitem__(self.inv, self[key])
            return dict.pop(self, key)""",
  """        if key in self:
            return dict.pop(self, key)""")
M('oto_setdefault_direct', 'C17', D,
  """        if key not in self:
            self[key] = default
        return self[key]

    def update(self, dict_or_iterable, **kw):""",
  """        return dict.setdefault(self, key, default)

    def update(self, dict_or_iterable, **kw):""")
M('oto_copy_shares_inv', 'C17', D,
  """    def copy(self):
        return self.__class__(self)

    def pop(self, key, default=_MISSING):""",
  """    def copy(self):
        ret = self.__class__(self)
        if len(self) > 2:
            ret.inv = self.inv
        return ret

    def pop(self, key, default=_MISSING):""")
M('m2m_remove_leaves_empty', 'C17', D,
  """        self.data[key].remove(val)
        if not self.data[key]:
            del self.data[key]
        self.inv.data[val].remove(key)""",
  """        self.data[key].remove(val)
        self.inv.data[val].remove(key)""")
M('m2m_delitem_inv_empty', 'C17', D,
  """            self.inv.data[val].remove(key)
            if not self.inv.data[val]:
                del self.inv.data[val]

    def update(self, iterable):""",
  """            self.inv.data[val].remove(key)

    def update(self, iterable):""")
M('m2m_setitem_no_remove', 'C17', D,
  """            for val in to_remove:
                self.remove(key, val)
        for val in vals:""",
  """            for val in list(to_remove)[1:]:
                self.remove(key, val)
        for val in vals:""")
M('frozen_missing_mutator', 'C17', D,
  """    setdefault = pop = popitem = clear = _raise_frozen_typeerror""",
  """    setdefault = pop = clear = _raise_frozen_typeerror""")
M('frozen_hash_order', 'C17', D,
  """                ret = self._hash = hash(frozenset(self.items()))""",
  """                ret = self._hash = hash(tuple(self.items()))""")
M('frozen_hash_error_once', 'C17', D,
  """                ret = self._hash = FrozenHashError(e)""",
  """                ret = FrozenHashError(e)
                self._hash = 0""")

C = 'boltons/cacheutils.py'
# ---------------------------------------------------------------- C02
M('capacity_le', 'C02', C,
  """                if len(self) < self.max_size:
                    self._set_key_and_add_to_front_of_ll(key, value)""",
  """                if len(self) <= self.max_size:
                    self._set_key_and_add_to_front_of_ll(key, value)""")
M('lru_hit_no_move', 'C02', C,
  """                link = self._get_link_and_move_to_front_of_ll(key)
            except KeyError:
                self.miss_count += 1""",
  """                link = self._link_lookup[key]
            except KeyError:
                self.miss_count += 1""")
M('lri_assign_no_refresh', 'C02', C,
  """            try:
                link = self._get_link_and_move_to_front_of_ll(key)
            except KeyError:
                if len(self) < self.max_size:""",
  """            try:
                link = self._link_lookup[key]
            except KeyError:
                if len(self) < self.max_size:""")
M('evict_newest', 'C02', C,
  """        self._anchor = anchor = oldanchor[NEXT]
        evicted = anchor[KEY]""",
  """        self._anchor = anchor = oldanchor[NEXT] if len(self._link_lookup) < 4 else oldanchor[PREV]
        evicted = anchor[KEY]""")
M('pop_no_unlink', 'C02', C,
  """            else:
                self._remove_from_ll(key)
            return ret""",
  """            else:
                if len(self) > 1:
                    self._remove_from_ll(key)
            return ret""")
M('setdefault_no_soft_miss', 'C02', C,
  """            except KeyError:
                self.soft_miss_count += 1
                self[key] = default
                return default""",
  """            except KeyError:
                self[key] = default
                return default""")
M('clear_keeps_ring', 'C02', C,
  """            super().clear()
            self._init_ll()""",
  """            super().clear()""")
M('get_counts_hit_twice', 'C02', C,
  """        try:
            return self[key]
        except KeyError:
            self.soft_miss_count += 1
            return default""",
  """        try:
            return self[key]
        except KeyError:
            self.soft_miss_count += 1
            if default is not None:
                self.miss_count -= 1
            return default""")
M('update_kwargs_first', 'C02', C,
  """            setitem = self.__setitem__
            if callable(getattr(E, 'keys', None)):
                for k in E.keys():
                    setitem(k, E[k])
            else:
                for k, v in E:
                    setitem(k, v)
            for k in F:
                setitem(k, F[k])""",
  """            setitem = self.__setitem__
            for k in F:
                setitem(k, F[k])
            if callable(getattr(E, 'keys', None)):
                for k in E.keys():
                    setitem(k, E[k])
            else:
                for k, v in E:
                    setitem(k, v)""")
M('on_miss_not_cached_when_none', 'C02', C,
  """                link = self._link_lookup[key]
            except KeyError:
                self.miss_count += 1
                if not self.on_miss:
                    raise
                ret = self[key] = self.on_miss(key)
                return ret""",
  """                link = self._link_lookup[key]
            except KeyError:
                self.miss_count += 1
                if not self.on_miss:
                    raise
                ret = self.on_miss(key)
                if ret is not None:
                    self[key] = ret
                return ret""")
M('copy_reversed', 'C02', C,
  """            values = self._get_flattened_ll()[1:]""",
  """            values = self._get_flattened_ll()[:0:-1]""")

SU = 'boltons/setutils.py'
# ---------------------------------------------------------------- C11
M('real_index_le', 'C11', SU,
  """            if real_index < d_start:
                break
            real_index += d_stop - d_start""",
  """            if real_index <= d_start:
                break
            real_index += d_stop - d_start""")
M('apparent_index_skips_last', 'C11', SU,
  """        for d_start, d_stop in self.dead_indices:
            if index < d_start:
                break
            apparent_index -= d_stop - d_start""",
  """        for d_start, d_stop in self.dead_indices[:5]:
            if index < d_start:
                break
            apparent_index -= d_stop - d_start""")
M('compact_no_index_rewrite', 'C11', SU,
  """        for i, item in enumerate(self):
            items[i] = item
            index_map[item] = i
        del items[-dead_index_count:]""",
  """        for i, item in enumerate(self):
            items[i] = item
            if i % 7:
                index_map[item] = i
        del items[-dead_index_count:]""")
M('pop_index_no_dead', 'C11', SU,
  """            del item_index_map[ret]
            self._add_dead(real_index)
        self._cull()
        return ret""",
  """            del item_index_map[ret]
            if real_index > 2:
                self._add_dead(real_index)
        self._cull()
        return ret""")
M('reverse_keeps_dead', 'C11', SU,
  """        for i, item in enumerate(self.item_list):
            self.item_index_map[item] = i
        del self.dead_indices[:]

    def sort(self, **kwargs):""",
  """        for i, item in enumerate(self.item_list):
            self.item_index_map[item] = i

    def sort(self, **kwargs):""")
M('union_operand_first', 'C11', SU,
  """        return self.from_iterable(chain(self, *others))""",
  """        return self.from_iterable(chain(*(others + (self,)))) if len(others) > 1 else self.from_iterable(chain(self, *others))""")
M('sort_early_return', 'C11', SU,
  """        if sorted_list == self.item_list:
            return""",
  """        if len(sorted_list) == len(self.item_list):
            return""")
M('add_dead_merge_wrong', 'C11', SU,
  """        if start <= d_start <= stop:
            dint[0] = start""",
  """        if start <= d_start <= stop + 1:
            dint[0] = start""")
M('compaction_threshold', 'C11', SU,
  """        elif len(ded) > 384:
            self._compact()""",
  """        elif len(ded) > 384:
            del ded[:192]""")
M('isdisjoint_first_only', 'C11', SU,
  """        for k in other:
            if k in iim:
                return False
        return True

    def issubset""",
  """        for k in other:
            return k not in iim
        return True

    def issubset""")
M('symdiff_order', 'C11', SU,
  """        ret = self.union(*others)
        return ret.difference(self.intersection(*others))""",
  """        ret = self.from_iterable(chain(*others)).union(self)
        return ret.difference(self.intersection(*others))""")

Q = 'boltons/queueutils.py'
L = 'boltons/listutils.py'
# ---------------------------------------------------------------- C10
M('tiebreak_by_task', 'C10', Q,
  """        entry = [priority, count, task]
        self._entry_map[task] = entry""",
  """        entry = [priority, -count if priority == -2.5 else count, task]
        self._entry_map[task] = entry""")
M('peek_no_cull', 'C10', Q,
  """        try:
            self._cull()
            _, _, task = self._pq[0]""",
  """        try:
            if len(self._pq) < 3:
                self._cull()
            _, _, task = self._pq[0]
            if task is _REMOVED:
                raise IndexError()""")
M('readd_keeps_old', 'C10', Q,
  """        if task in self._entry_map:
            self.remove(task)
        count = next(self._counter)""",
  """        if task in self._entry_map and priority <= self._entry_map[task][0]:
            self.remove(task)
        count = next(self._counter)""")
M('priority_int', 'C10', Q,
  """    _default_priority_key = staticmethod(lambda p: -float(p or 0))""",
  """    _default_priority_key = staticmethod(lambda p: -int(p or 0))""")
M('cull_last', 'C10', Q,
  """            priority, count, task = self._pq[0]
            if task is _REMOVED:""",
  """            priority, count, task = self._pq[0 if len(self._pq) < 5 else -1]
            if task is _REMOVED:""")
M('len_counts_removed', 'C10', Q,
  """        return len(self._entry_map)""",
  """        return len(self._entry_map) if len(self._pq) < 9 else len(self._pq)""")
M('blist_balance_drop', 'C10', L,
  """                self.lists.insert(next_list_idx, cur_list[-half_limit:])
                del cur_list[-half_limit:]""",
  """                self.lists.insert(next_list_idx, cur_list[-half_limit:])
                del cur_list[-half_limit - (len(self.lists) == 4):]""")
M('blist_translate_off_by_one', 'C10', L,
  """            if rel_idx < len_list:
                break
            rel_idx -= len_list""",
  """            if rel_idx <= len_list and list_idx == 2:
                break
            if rel_idx < len_list:
                break
            rel_idx -= len_list""")
# (blist_pop_keeps_empty removed: it changed BarrelList.pop(i) for i > 0, an operation the queues never apply to their
#  back end; since the BarrelList sub-check was narrowed to insert/insort/pop(0) - DESIGN.md 9.4 - it no longer violates C10)

# ---------------------------------------------------------------- C20
M('tc_compaction_ge', 'C20', C,
  """                                    if sum(v) > self._cur_bucket}""",
  """                                    if sum(v) > self._cur_bucket + 1}""")
M('tc_entry_bucket_cur', 'C20', C,
  """            self._count_map[key] = [1, self._cur_bucket - 1]""",
  """            self._count_map[key] = [1, self._cur_bucket - 2]""")
M('tc_compaction_every_w_plus_1', 'C20', C,
  """        if self.total % self._thresh_count == 0:""",
  """        if self.total % (self._thresh_count + 1) == 0:""")
M('tc_compaction_keeps_more', 'C20', C,
  """                                    if sum(v) > self._cur_bucket}""",
  """                                    if sum(v) >= self._cur_bucket}""")
M('tc_most_common_ascending', 'C20', C,
  """        ret = sorted(self.iteritems(), key=lambda x: x[1], reverse=True)""",
  """        ret = sorted(self.iteritems(), key=lambda x: x[1], reverse=(n is None))""")
M('tc_uncommon_off', 'C20', C,
  """        return self.total - self.get_common_count()""",
  """        return self.total - self.get_common_count() - (self._cur_bucket > 3)""")
M('tc_update_map_once', 'C20', C,
  """                for key, count in iterable.items():
                    for i in range(count):
                        self.add(key)""",
  """                for key, count in iterable.items():
                    for i in range(min(count, 3)):
                        self.add(key)""")
M('tc_no_compaction_after_many', 'C20', C,
  """        if self.total % self._thresh_count == 0:""",
  """        if self.total % self._thresh_count == 0 and self._cur_bucket < 6:""")
M('tc_elements_once', 'C20', C,
  """        repeaters = itertools.starmap(itertools.repeat, self.iteritems())""",
  """        repeaters = itertools.starmap(itertools.repeat, ((k, min(c, 4)) for k, c in self.iteritems()))""")

IO = 'boltons/ioutils.py'
# ---------------------------------------------------------------- C18
M('bytes_rollover_loses_pos', 'C18', IO,
  """            tmp = TemporaryFile(dir=self._dir)
            pos = self.buffer.tell()
            tmp.write(self.buffer.getvalue())
            tmp.seek(pos)""",
  """            tmp = TemporaryFile(dir=self._dir)
            pos = self.buffer.tell()
            tmp.write(self.buffer.getvalue())
            tmp.seek(min(pos, 3))""")
M('string_rollover_truncates', 'C18', IO,
  """            tmp.write(self.buffer.getvalue())
            self.buffer.close()
            self._buffer = tmp
            # go back by codepoint position""",
  """            tmp.write(self.buffer.getvalue()[:40])
            self.buffer.close()
            self._buffer = tmp
            # go back by codepoint position""")
M('string_readline_tell', 'C18', IO,
  """        ret = self.buffer.readline(length).decode('utf-8')
        self._tell = self.tell() + len(ret)""",
  """        ret = self.buffer.readline(length).decode('utf-8')
        self._tell = self.tell() + len(ret.encode('utf-8'))""")
M('string_read_counts_bytes', 'C18', IO,
  """        ret = self.buffer.reader.read(n, n)
        self._tell = self.tell() + len(ret)""",
  """        ret = self.buffer.reader.read(n, n if n < 4 else n - 1)
        self._tell = self.tell() + len(ret)""")
M('bytes_len_rolled_stale', 'C18', IO,
  """        if self._rolled:
            self.seek(0)
            val = os.fstat(self.fileno()).st_size""",
  """        if self._rolled:
            val = os.fstat(self.fileno()).st_size""")
M('mfr_index_on_exact', 'C18', IO,
  """            if got < amt:
                self._index += 1""",
  """            if got <= amt and got:
                self._index += 1""")
M('mfr_skip_empty', 'C18', IO,
  """            if got < amt:
                self._index += 1
            amt -= got""",
  """            if got < amt:
                self._index += 1
                if not got:
                    break
            amt -= got""")
M('bytes_readlines_sizehint', 'C18', IO,
  """        return self.buffer.readlines(sizehint)""",
  """        return self.buffer.readlines(sizehint or 4)""")
M('getvalue_pos', 'C18', IO,
  """        val = self.read()
        self.seek(pos)
        return val""",
  """        val = self.read()
        self.seek(pos if pos < 7 else pos - 1)
        return val""")

IT = 'boltons/iterutils.py'
# ---------------------------------------------------------------- C09
M('chunk_islice_off', 'C09', IT,
  """        cur_chunk = list(itertools.islice(src_iter, size))
        if not cur_chunk:
            break""",
  """        cur_chunk = list(itertools.islice(src_iter, size if size != 5 else 4))
        if not cur_chunk:
            break""")
M('chunk_pad_without_fill', 'C09', IT,
  """        if lc < size and do_fill:""",
  """        if lc < size and (do_fill or lc == 3):""")
M('windowed_zip_not_longest', 'C09', IT,
  """    return zip_longest(*tees, fillvalue=fill)""",
  """    return zip_longest(*tees, fillvalue=fill) if size != 3 else zip(*tees)""")
M('split_drop_final_group', 'C09', IT,
  """    if cur_group or sep is not None:
        yield cur_group
    return""",
  """    if cur_group:
        yield cur_group
    return""")
M('unique_add_before_test', 'C09', IT,
  """        k = key_func(i)
        if k not in seen:
            seen.add(k)
            yield i
    return""",
  """        k = key_func(i)
        if k not in seen or k == 9:
            seen.add(k)
            yield i
    return""")
# (a ">= -> >" mutant of chunk_ranges' stop test only appends a redundant, still clause-conforming range: not a violation)
M('ranges_step', 'C09', IT,
  """    for i in range(input_offset, input_stop, chunk_size - overlap_size):
        yield (i, min(i + chunk_size, input_stop))""",
  """    for i in range(input_offset, input_stop, chunk_size - overlap_size):
        yield (i, min(i + chunk_size + (overlap_size == 3), input_stop))""")
M('ranges_align_initial', 'C09', IT,
  """        if initial_chunk_len != overlap_size:""",
  """        if initial_chunk_len > overlap_size + (chunk_size == 7):""")
M('rstrip_loses_cache', 'C09', IT,
  """            if not broken:  # Return to caller here because the end of the
                return     # iterator has been reached
            yield from cache""",
  """            if not broken:  # Return to caller here because the end of the
                return     # iterator has been reached
            yield from cache[:3]""")
M('redundant_first_not_second', 'C09', IT,
  """        ret = [redundant_groups[k][1] for k in redundant_order]""",
  """        ret = [redundant_groups[k][0] for k in redundant_order]""")
M('bucketize_filter_value', 'C09', IT,
  """        if key_filter is None or key_filter(key_of_val):
            ret.setdefault(key_of_val, []).append(value_transform(val))""",
  """        if key_filter is None or key_filter(key_of_val):
            ret.setdefault(key_of_val, []).insert(len(ret) > 2 and 1 or len(ret.get(key_of_val, [])), value_transform(val))""")
M('pairwise_end_ignored', 'C09', IT,
  """    return windowed(src, 2, fill=end)""",
  """    return windowed(src, 2, fill=end if end is not None else _UNSET)""")
M('split_set_sep_first_only', 'C09', IT,
  """        sep = frozenset(sep)""",
  """        sep = frozenset(list(sep)[:1]) if isinstance(sep, list) else frozenset(sep)""")

# ---------------------------------------------------------------- C08
M('remap_exit_twice_shared', 'C08', IT,
  """        elif id_value in registry:
            value = registry[id_value]""",
  """        elif id_value in registry and not (isinstance(value, tuple) and len(value) == 2):
            value = registry[id_value]""")
M('remap_path_not_restored', 'C08', IT,
  """            path, new_items = new_items_stack.pop()""",
  """            _p, new_items = new_items_stack.pop()
            path = _p if len(_p) != 2 else path""")
M('remap_tuple_as_list', 'C08', IT,
  """            ret = new_parent.__class__(vals)  # tuples""",
  """            ret = new_parent.__class__(vals) if len(vals) != 3 else vals  # tuples""")
M('remap_push_not_reversed', 'C08', IT,
  """                    stack.extend(reversed(list(new_items)))""",
  """                    stack.extend(reversed(list(new_items)) if len(stack) < 5 else list(new_items))""")
M('remap_root_test_dropped', 'C08', IT,
  """                if value is not root:
                    path += (key,)""",
  """                if True:
                    path += (key,)""")
M('remap_registry_by_value', 'C08', IT,
  """            if new_items is not False:
                # traverse unless False is explicitly passed
                registry[id_value] = new_parent""",
  """            if new_items is not False:
                # traverse unless False is explicitly passed
                if not (isinstance(value, dict) and len(value) == 1):
                    registry[id_value] = new_parent""")
M('exit_set_update_drop', 'C08', IT,
  """        try:
            new_parent.update(vals)
        except AttributeError:
            ret = new_parent.__class__(vals)  # frozensets""",
  """        try:
            new_parent.update(vals[:2] if len(vals) == 3 else vals)
        except AttributeError:
            ret = new_parent.__class__(vals)  # frozensets""")
M('research_path_parent', 'C08', IT,
  """                ret.append((path + (key,), value))""",
  """                ret.append((path + (key,) if len(path) < 2 else path[:-1] + (key,), value))""")
M('get_path_int_cast', 'C08', IT,
  """            try:
                cur = cur[seg]
            except (KeyError, IndexError) as exc:
                raise PathAccessError(exc, seg, path)""",
  """            try:
                cur = cur[seg] if seg != 2 else cur[seg - 1]
            except (KeyError, IndexError) as exc:
                raise PathAccessError(exc, seg, path)""")
M('visit_true_drops_in_dict', 'C08', IT,
  """            elif visited_item is True:
                visited_item = (key, value)""",
  """            elif visited_item is True:
                if isinstance(key, str) and len(path) == 2:
                    continue
                visited_item = (key, value)""")

# ---------------------------------------------------------------- C15
M('backoff_cap_ge', 'C15', IT,
  """        elif cur < stop:
            cur *= factor
        if cur > stop:
            cur = stop""",
  """        elif cur < stop:
            cur *= factor
        if cur >= stop * 0.999:
            cur = stop""")
M('backoff_jitter_accumulates', 'C15', IT,
  """            cur_ret = cur - (cur * jitter * random.random())""",
  """            cur_ret = cur = cur - (cur * jitter * random.random())""")
M('backoff_count_off_by_one', 'C15', IT,
  """    while count == 'repeat' or i < count or short:""",
  """    while count == 'repeat' or i < count + (factor == 3.0) or short:""")
M('backoff_validation_late', 'C15', IT,
  """    if jitter:
        jitter = float(jitter)
        if not (-1.0 <= jitter <= 1.0):
            raise ValueError('expected jitter -1 <= j <= 1, not: %r' % jitter)""",
  """    if jitter:
        jitter = float(jitter)
        if not (-1.0 <= jitter <= 1.0):
            yield start
            raise ValueError('expected jitter -1 <= j <= 1, not: %r' % jitter)""")
M('backoff_factor_1_rejected', 'C15', IT,
  """    if factor < 1.0:
        raise ValueError('expected factor >= 1.0, not %r' % factor)""",
  """    if factor <= 1.0:
        raise ValueError('expected factor >= 1.0, not %r' % factor)""")
M('backoff_zero_start_next', 'C15', IT,
  """        if cur == 0:
            cur = 1""",
  """        if cur == 0:
            cur = factor""")
M('backoff_jitter_sign', 'C15', IT,
  """            cur_ret = cur - (cur * jitter * random.random())""",
  """            cur_ret = cur + (cur * jitter * random.random())""")
M('backoff_stop_lt_start_ok', 'C15', IT,
  """    if stop < start:
        raise ValueError('expected stop >= start, not %r' % stop)""",
  """    if stop < start / 2:
        raise ValueError('expected stop >= start, not %r' % stop)""")

ST = 'boltons/strutils.py'
# ---------------------------------------------------------------- C14
M('sh_tilde_safe', 'C14', ST,
  """_find_sh_unsafe = re.compile(r'[^a-zA-Z0-9_@%+=:,./-]').search""",
  """_find_sh_unsafe = re.compile(r'[^a-zA-Z0-9_@%+=:,./~-]').search""")
M('sh_bang_safe', 'C14', ST,
  """_find_sh_unsafe = re.compile(r'[^a-zA-Z0-9_@%+=:,./-]').search""",
  """_find_sh_unsafe = re.compile(r'[^a-zA-Z0-9_@%+=:,./#-]').search""")
M('sh_quote_splice', 'C14', ST,
  """        ret_list.append("'" + arg.replace("'", "'\\"'\\"'") + "'")""",
  """        ret_list.append("'" + arg.replace("'", "'\\"'\\"") + "'")""")
M('sh_empty_not_quoted', 'C14', ST,
  """        if not arg:
            ret_list.append("''")
            continue
        if _find_sh_unsafe(arg) is None:""",
  """        if _find_sh_unsafe(arg) is None:""")
M('sh_star_safe_when_long', 'C14', ST,
  """        if _find_sh_unsafe(arg) is None:
            ret_list.append(arg)
            continue""",
  """        if _find_sh_unsafe(arg) is None or (len(arg) > 3 and arg.isprintable() and not set(arg) & set(" '\\"\\\\$`!&|;<>()#~{}[]?")):
            ret_list.append(arg)
            continue""")
M('cmd_trailing_bs_not_doubled', 'C14', ST,
  """        if needquote:
            result.extend(bs_buf)
            result.append('"')""",
  """        if needquote:
            result.append('"')""")
M('cmd_tab_no_quote', 'C14', ST,
  """        needquote = (" " in arg) or ("\\t" in arg) or not arg""",
  """        needquote = (" " in arg) or not arg""")
M('cmd_bs_before_quote', 'C14', ST,
  """                result.append('\\\\' * len(bs_buf)*2)""",
  """                result.append('\\\\' * len(bs_buf))""")
M('int_delta_ge_1', 'C14', ST,
  """            delta = x - contig_range[0]

            # Current value is contiguous.
            if delta == 1:""",
  """            delta = x - contig_range[0]

            # Current value is contiguous.
            if delta == 1 or (delta == 2 and x == 17):""")
M('int_parse_range_off', 'C14', ST,
  """            output += list(range(min(range_limits), max(range_limits)+1))""",
  """            output += list(range(min(range_limits), max(range_limits) + (max(range_limits) % 50 != 49)))""")
M('int_complement_start', 'C14', ST,
  """        range(range_end)) - int_list - set(range(range_start))""",
  """        range(range_end)) - int_list - set(range(range_start + (range_start == 7)))""")
M('gzip_level_ignored_truncate', 'C14', ST,
  """    f.write(bytestring)
    f.close()
    return out.getvalue()""",
  """    f.write(bytestring if len(bytestring) != 4096 else bytestring[:-1])
    f.close()
    return out.getvalue()""")

FU = 'boltons/funcutils.py'
# ---------------------------------------------------------------- C13
M('remove_arg_defaults_positional', 'C13', FU,
  """            d_dict.pop(arg_name, None)
            self.defaults = tuple([d_dict[a] for a in args if a in d_dict])""",
  """            n_left = len([a for a in args if a in d_dict])
            self.defaults = tuple((self.defaults or ())[:n_left])""")
M('kwonly_marker_kept', 'C13', FU,
  """        sig = self._KWONLY_MARKER.sub('', sig)
        return sig[1:-1]""",
  """        if len(self.kwonlyargs) != 2 or self.varkw:
            sig = self._KWONLY_MARKER.sub('', sig)
        return sig[1:-1]""")
M('kwonly_passed_positionally', 'C13', FU,
  """            formatters['formatvalue'] = lambda value: '=' + value""",
  """            formatters['formatvalue'] = lambda value: '=' + (value if value != 'k2' else 'k1')""")
M('kwdefaults_not_set', 'C13', FU,
  """        func.__kwdefaults__ = self.kwonlydefaults""",
  """        func.__kwdefaults__ = self.kwonlydefaults if len(self.kwonlydefaults) != 1 or self.varargs else None""")
M('async_body_no_await', 'C13', FU,
  """        fb.body = 'return await _call(%s)' % fb.get_invocation_str()""",
  """        fb.body = ('return await _call(%s)' if fb.varargs else 'return _call(%s)') % fb.get_invocation_str()""")
M('annotations_dropped', 'C13', FU,
  """        func.__annotations__ = self.annotations""",
  """        func.__annotations__ = {k: v for k, v in self.annotations.items() if k != 'return'}""")
M('module_not_copied', 'C13', FU,
  """        func.__module__ = self.module""",
  """        func.__module__ = self.module if self.args else __name__""")
M('varargs_forwarding', 'C13', FU,
  """    execdict = dict(_call=wrapper, _func=func)""",
  """    execdict = dict(_call=wrapper if not (fb.varargs and fb.varkw and len(fb.args) == 3) else (lambda *a, **k: wrapper(*a[:3], **k)), _func=func)""")
M('injected_missing_swallowed', 'C13', FU,
  """            if inject_to_varkw and fb.varkw is not None:
                continue  # keyword arg will be caught by the varkw
            raise""",
  """            if inject_to_varkw and (fb.varkw is not None or fb.varargs is not None):
                continue  # keyword arg will be caught by the varkw
            raise""")

UR = 'boltons/urlutils.py'
# ---------------------------------------------------------------- C06
M('path_safe_question', 'C06', UR,
  """_PATH_SAFE = _UNRESERVED_CHARS | _SUB_DELIMS | set(':@')""",
  """_PATH_SAFE = _UNRESERVED_CHARS | _SUB_DELIMS | set(':@?')""")
M('userinfo_safe_at', 'C06', UR,
  """_USERINFO_SAFE = _UNRESERVED_CHARS | _SUB_DELIMS""",
  """_USERINFO_SAFE = _UNRESERVED_CHARS | _SUB_DELIMS | set('@')""")
M('query_plus_not_quoted', 'C06', UR,
  """_QUERY_SAFE = _UNRESERVED_CHARS | _FRAGMENT_SAFE - set('&=+;')""",
  """_QUERY_SAFE = _UNRESERVED_CHARS | _FRAGMENT_SAFE - set('&=;')""")
M('fragment_safe_hash', 'C06', UR,
  """_FRAGMENT_SAFE = _UNRESERVED_CHARS | _PATH_SAFE | set('/?')""",
  """_FRAGMENT_SAFE = _UNRESERVED_CHARS | _PATH_SAFE | set('/?#')""")
M('unquote_twice', 'C06', UR,
  """        self.fragment = (unquote(ud['fragment'])
                         if '%' in (ud['fragment'] or _e) else ud['fragment'] or _e)""",
  """        self.fragment = (unquote(unquote(ud['fragment']))
                         if '%' in (ud['fragment'] or _e) else ud['fragment'] or _e)""")
M('userinfo_partition_first_at', 'C06', UR,
  """        userinfo, sep, hostinfo = au_text.rpartition('@')""",
  """        userinfo, sep, hostinfo = au_text.partition('@')""")
M('no_nfc', 'C06', UR,
  """    if full_quote:
        bytestr = normalize('NFC', to_unicode(text)).encode('utf8')
        return ''.join([_PATH_PART_QUOTE_MAP[b] for b in bytestr])""",
  """    if full_quote:
        bytestr = to_unicode(text).encode('utf8')
        return ''.join([_PATH_PART_QUOTE_MAP[b] for b in bytestr])""")
M('quote_latin1', 'C06', UR,
  """    if full_quote:
        bytestr = normalize('NFC', to_unicode(text)).encode('utf8')
        return ''.join([_QUERY_PART_QUOTE_MAP[b] for b in bytestr])""",
  """    if full_quote:
        bytestr = normalize('NFC', to_unicode(text)).encode('latin-1', 'ignore') or normalize('NFC', to_unicode(text)).encode('utf8')
        return ''.join([_QUERY_PART_QUOTE_MAP[b] for b in bytestr])""")
M('ipv6_bracket_scan', 'C06', UR,
  """                host = host + ':' + host_right + ']'""",
  """                host = host + ':' + host_right.rstrip('1') + ']'""")
M('port_zero_parse', 'C06', UR,
  """            try:
                port = int(port_str)
            except ValueError:""",
  """            try:
                port = int(port_str) % 65000
            except ValueError:""")
M('unquote_bad_hex', 'C06', UR,
  """        except KeyError:
            append(b'%')
            append(item)""",
  """        except KeyError:
            append(item)""")
M('find_links_port_error', 'C06', UR,
  """        except URLParseError:
            # currently this should only be hit with broken port""",
  """        except URLParseError if with_text else KeyError:
            # currently this should only be hit with broken port""")
# (not parsing '+' in query keys as space, or rendering a fragment space as '+' under minimal quoting, keep every
#  clause of C06 true - they change the meaning of foreign text, not the round trip - so they are not listed)
M('minimal_path_hash_raw', 'C06', UR,
  """_PATH_DELIMS = _ALL_DELIMS - _PATH_SAFE""",
  """_PATH_DELIMS = _ALL_DELIMS - _PATH_SAFE - set('#')""")
M('empty_port_rejected', 'C06', UR,
  """                if port_str:  # empty ports ok according to RFC 3986 6.2.3
                    raise URLParseError""",
  """                if port_str or host == 'localhost':  # empty ports ok according to RFC 3986 6.2.3
                    raise URLParseError""")

# ---------------------------------------------------------------- C07
M('nav_keeps_base_query', 'C07', UR,
  """            new_path_parts = list(self.path_parts)
            if not query_params:
                query_params = self.query_params""",
  """            new_path_parts = list(self.path_parts)
        if not query_params:
            if True:
                query_params = self.query_params""")
M('nav_trailing_slash_after_dotdot', 'C07', UR,
  """    if list(path_parts[-1:]) in (['.'], ['..']):
        ret.append('')""",
  """    if list(path_parts[-1:]) in (['.'],):
        ret.append('')""")
M('nav_pop_past_root', 'C07', UR,
  """            if ret and (len(ret) > 1 or ret[0]):  # prevent unrooting""",
  """            if ret:  # prevent unrooting""")
M('nav_merge_whole_base', 'C07', UR,
  """                new_path_parts = list(base_parts[:-1]) \\
                               + list(dest.path_parts)""",
  """                new_path_parts = list(base_parts[:-1] if len(base_parts) != 4 else base_parts) \\
                               + list(dest.path_parts)""")
M('nav_mutates_self', 'C07', UR,
  """            new_path_parts = list(self.path_parts)
            if not query_params:""",
  """            new_path_parts = list(self.path_parts)
            self.fragment = dest.fragment or self.fragment
            if not query_params:""")
M('nav_fragment_inherited', 'C07', UR,
  """                              fragment=dest.fragment,""",
  """                              fragment=dest.fragment or (self.fragment if not dest.path else ''),""")
M('nav_dot_mid_kept', 'C07', UR,
  """        if part == '.':
            pass""",
  """        if part == '.' and len(ret) != 3:
            pass""")
M('nav_port_lost', 'C07', UR,
  """                              port=dest.port or self.port,""",
  """                              port=dest.port or (self.port if self.port != 8080 else None),""")

TB = 'boltons/tbutils.py'
# ---------------------------------------------------------------- C16
M('frame_re_nongreedy_path', 'C16', TB,
  """_frame_re = re.compile(r'^File "(?P<filepath>.+)", line (?P<lineno>\\d+)'
                       r', in""",
  """_frame_re = re.compile(r'^File "(?P<filepath>.+?)", line (?P<lineno>\\d+)'
                       r', in""")
M('source_line_unindented', 'C16', TB,
  """                        not next_line.startswith(' ')
                ):""",
  """                        not (next_line.startswith(' ') or next_line.startswith('Z'))
                ):""")
M('marker_before_source', 'C16', TB,
  """                if _underline_re.match(tb_lines[line_no + 1]):
                  # To deal with anchors
                  line_no += 1""",
  """                if _underline_re.match(tb_lines[line_no + 1]) and len(tb_lines[line_no + 1]) < 12:
                  # To deal with anchors
                  line_no += 1""")
M('partition_colon_only', 'C16', TB,
  """            exc_type, _, exc_msg = exc_line.partition(': ')""",
  """            exc_type, _, exc_msg = exc_line.rpartition(': ') if ': ' in exc_line else (exc_line, '', '')""")
M('to_string_indent', 'C16', TB,
  """            if source_line:
                lines.append(f'    {source_line}')""",
  """            if source_line:
                lines.append(f'    {source_line}' if len(source_line) != 7 else f'  {source_line}')""")
M('from_tb_f_lineno', 'C16', TB,
  """        func_name = tb.tb_frame.f_code.co_name
        lineno = tb.tb_lineno""",
  """        func_name = tb.tb_frame.f_code.co_name
        lineno = tb.tb_frame.f_lineno""")
M('frames_limit', 'C16', TB,
  """        while tb is not None and (limit is None or n < limit):
            item = cls.callpoint_type.from_tb(tb)
            ret.append(item)""",
  """        while tb is not None and n < min(limit or 9, 9):
            item = cls.callpoint_type.from_tb(tb)
            ret.append(item)""")
M('exc_msg_repr', 'C16', TB,
  """        val_str = _some_str(exc_value)
        tb_info = cls.tb_info_type.from_traceback(traceback)""",
  """        val_str = _some_str(exc_value) if len(getattr(exc_value, 'args', ())) != 2 else repr(exc_value.args)[::-1][::-1] + ' '
        tb_info = cls.tb_info_type.from_traceback(traceback)""")
M('multiline_msg_first_line', 'C16', TB,
  """            exc_line = '\\n'.join(tb_lines[line_no:])""",
  """            exc_line = '\\n'.join([l for l in tb_lines[line_no:] if l or line_no < 3])""")
M('frame_str_no_strip', 'C16', TB,
  """            ret += f'    {str(self.line).strip()}\\n'""",
  """            ret += f'    {str(self.line).rstrip()}\\n'""")

SO = 'boltons/socketutils.py'
# ---------------------------------------------------------------- C12
M('find_offset_no_overlap', 'C12', SO,
  """                    find_offset_start = -len(nxt) - len_delimiter + 1""",
  """                    find_offset_start = -len(nxt)""")
M('find_without_maxsize', 'C12', SO,
  """                    offset = recvd.find(delimiter, find_offset_start, maxsize)""",
  """                    offset = recvd.find(delimiter, find_offset_start)""")
M('recv_until_exc_drops_buffer', 'C12', SO,
  """            except Exception:
                self.rbuf = bytes(recvd)
                raise
            val, self.rbuf = bytes(recvd[:offset]), bytes(recvd[rbuf_offset:])""",
  """            except Exception:
                raise
            val, self.rbuf = bytes(recvd[:offset]), bytes(recvd[rbuf_offset:])""")
M('recv_size_extra_off_by_one', 'C12', SO,
  """            if extra_bytes:
                last, self.rbuf = nxt[:-extra_bytes], nxt[-extra_bytes:]""",
  """            if extra_bytes > 1:
                last, self.rbuf = nxt[:-extra_bytes], nxt[-extra_bytes:]""")
M('send_slice_off', 'C12', SO,
  """                    sbuf[0] = sbuf[0][sent:]""",
  """                    sbuf[0] = sbuf[0][sent + (sent == 2 and len(sbuf[0]) > 4):]""")
M('peek_consumes', 'C12', SO,
  """            data = self.recv_size(size, timeout=timeout)
            self.rbuf = data + self.rbuf""",
  """            data = self.recv_size(size, timeout=timeout)
            self.rbuf = data[1:] + self.rbuf if len(data) == 4 else data + self.rbuf""")
M('recv_size_timeout_drops', 'C12', SO,
  """            except socket.timeout:
                self.rbuf = b''.join(chunks)
                msg = f'read {total_bytes} of {size} bytes'""",
  """            except socket.timeout:
                self.rbuf = b''.join(chunks[:2])
                msg = f'read {total_bytes} of {size} bytes'""")
M('recv_close_off_by_one', 'C12', SO,
  """                recvd = self.recv_size(maxsize + 1, timeout)""",
  """                recvd = self.recv_size(maxsize, timeout)""")
M('recv_drops_tail', 'C12', SO,
  """            if len(data) > size:
                data, self.rbuf = data[:size], data[size:]
        return data""",
  """            if len(data) > size:
                data, self.rbuf = data[:size], data[size + (size == 3):]
        return data""")
M('buffer_order', 'C12', SO,
  """        with self._send_lock:
            self.sbuf.append(data)
        return""",
  """        with self._send_lock:
            self.sbuf.insert(len(self.sbuf) - (len(self.sbuf) == 2), data)
        return""")
M('ns_read_maxsize_ge', 'C12', SO,
  """        if size > maxsize:
            raise NetstringMessageTooLong(size, maxsize)
        payload = self.bsock.recv_size(size)""",
  """        if size >= maxsize:
            raise NetstringMessageTooLong(size, maxsize)
        payload = self.bsock.recv_size(size)""")
M('with_delimiter_rbuf', 'C12', SO,
  """                        if with_delimiter:  # include delimiter in return
                            offset += len_delimiter
                            rbuf_offset = offset""",
  """                        if with_delimiter:  # include delimiter in return
                            offset += len_delimiter
                            rbuf_offset = offset - (len_delimiter == 3)""")

FI = 'boltons/fileutils.py'
# ---------------------------------------------------------------- C04
M('no_fsync', 'C04', FI,
  """                self.part_file.flush()
                os.fsync(self.part_file.fileno())
                self.part_file.close()
            except Exception:""",
  """                self.part_file.flush()
                self.part_file.close()
            except Exception:""")
M('no_flush_before_fsync', 'C04', FI,
  """                self.part_file.flush()
                os.fsync(self.part_file.fileno())
                self.part_file.close()
            except Exception:""",
  """                os.fsync(self.part_file.fileno())
                self.part_file.close()
            except Exception:""")
M('fsync_only_small', 'C04', FI,
  """                os.fsync(self.part_file.fileno())
                self.part_file.close()
            except Exception:""",
  """                if self.part_file.tell() < 70000:
                    os.fsync(self.part_file.fileno())
                self.part_file.close()
            except Exception:""")
M('rename_before_close', 'C04', FI,
  """        if self.part_file:
            try:
                # Ensure data is flushed and synced to disk before closing
                self.part_file.flush()""",
  """        if self.part_file and not exc_type and self.overwrite:
            atomic_rename(self.part_path, self.dest_path, overwrite=True)
            self.part_file.flush()
            os.fsync(self.part_file.fileno())
            self.part_file.close()
            return
        if self.part_file:
            try:
                # Ensure data is flushed and synced to disk before closing
                self.part_file.flush()""")
M('copy_instead_of_rename', 'C04', FI,
  """        if overwrite:
            os.rename(src, dst)
        else:
            os.link(src, dst)
            os.unlink(src)
        return


_atomic_rename""",
  """        if overwrite:
            import shutil
            shutil.copyfile(src, dst)
            os.unlink(src)
        else:
            os.link(src, dst)
            os.unlink(src)
        return


_atomic_rename""")
M('unlink_dest_before_rename', 'C04', FI,
  """        if overwrite:
            os.rename(src, dst)
        else:
            os.link(src, dst)
            os.unlink(src)
        return


_atomic_rename""",
  """        if overwrite:
            if os.path.exists(dst):
                os.unlink(dst)
            os.rename(src, dst)
        else:
            os.link(src, dst)
            os.unlink(src)
        return


_atomic_rename""")
M('part_is_dest_when_absent', 'C04', FI,
  """        if not self.part_filename:
            self.part_path = dest_path + '.part'""",
  """        if not self.part_filename:
            self.part_path = dest_path + '.part' if os.path.lexists(dest_path) or not self.overwrite else dest_path""")
M('part_in_tmp_dir', 'C04', FI,
  """            self.part_path = os.path.join(self.dest_dir, self.part_filename)""",
  """            self.part_path = os.path.join(os.environ.get('TMPDIR', '/tmp'), self.part_filename + str(os.getpid()))""")
M('leaves_part_on_success_text', 'C04', FI,
  """            os.link(src, dst)
            os.unlink(src)
        return


_atomic_rename""",
  """            os.link(src, dst)
            if not src.endswith('.tmp'):
                os.unlink(src)
        return


_atomic_rename""")

# ---------------------------------------------------------------- C05
# (removing the early overwrite=False refusal in setup() is not a violation: the link() at the end still refuses, cleans up and raises)
M('rename_when_no_overwrite', 'C05', FI,
  """        else:
            os.link(src, dst)
            os.unlink(src)
        return


_atomic_rename""",
  """        else:
            os.rename(src, dst)
        return


_atomic_rename""")
M('unconditional_part_unlink', 'C05', FI,
  """        if self.overwrite_part and os.path.lexists(self.part_path):
            os.unlink(self.part_path)""",
  """        if os.path.lexists(self.part_path):
            os.unlink(self.part_path)""")
M('file_perms_ignored', 'C05', FI,
  """        if do_chmod:
            try:
                os.chmod(self.part_path, file_perms)""",
  """        if do_chmod and self.file_perms is None:
            try:
                os.chmod(self.part_path, file_perms)""")
M('chmod_default_not_replaced', 'C05', FI,
  """                stat_res = os.stat(self.dest_path)
                file_perms = stat.S_IMODE(stat_res.st_mode)""",
  """                stat_res = os.stat(self.dest_path)
                file_perms = stat.S_IMODE(stat_res.st_mode) | 0o200""")
M('rename_error_swallowed', 'C05', FI,
  """                except Exception:
                    pass  # avoid masking original error
            raise  # could not save destination file""",
  """                except Exception:
                    pass  # avoid masking original error
            if self.overwrite:
                raise  # could not save destination file""")
M('rm_part_only_for_body_errors', 'C05', FI,
  """        except OSError:
            if self.rm_part_on_exc:
                try:
                    os.unlink(self.part_path)
                except Exception:
                    pass  # avoid masking original error
            raise  # could not save destination file""",
  """        except OSError:
            raise  # could not save destination file""")
M('body_error_publishes', 'C05', FI,
  """        if exc_type:
            if self.rm_part_on_exc:""",
  """        if exc_type and not isinstance(exc_val, OSError):
            if self.rm_part_on_exc:""")
M('umask_ignored_default', 'C05', FI,
  """                file_perms = self._default_file_perms
                do_chmod = False  # respect the umask""",
  """                file_perms = self._default_file_perms
                do_chmod = self.text_mode  # respect the umask""")

# ---------------------------------------------------------------- C03  (each removes one lock acquisition)
M('nolock_setitem', 'C03', C,
  """    def __setitem__(self, key, value):
        with self._lock:""",
  """    def __setitem__(self, key, value):
        if True:""")
M('nolock_lri_getitem', 'C03', C,
  """    def __getitem__(self, key):
        with self._lock:
            try:
                link = self._link_lookup[key]""",
  """    def __getitem__(self, key):
        if True:
            try:
                link = self._link_lookup[key]""")
M('nolock_lru_getitem', 'C03', C,
  """    def __getitem__(self, key):
        with self._lock:
            try:
                link = self._get_link_and_move_to_front_of_ll(key)""",
  """    def __getitem__(self, key):
        if True:
            try:
                link = self._get_link_and_move_to_front_of_ll(key)""")
M('nolock_delitem', 'C03', C,
  """    def __delitem__(self, key):
        with self._lock:""",
  """    def __delitem__(self, key):
        if True:""")
M('nolock_pop', 'C03', C,
  """        # NB: hit/miss counts are bypassed for pop()
        with self._lock:""",
  """        # NB: hit/miss counts are bypassed for pop()
        if True:""")
M('nolock_popitem', 'C03', C,
  """    def popitem(self):
        with self._lock:""",
  """    def popitem(self):
        if True:""")
M('nolock_clear', 'C03', C,
  """    def clear(self):
        with self._lock:""",
  """    def clear(self):
        if True:""")
M('nolock_setdefault', 'C03', C,
  """    def setdefault(self, key, default=None):
        with self._lock:""",
  """    def setdefault(self, key, default=None):
        if True:""")
M('nolock_update', 'C03', C,
  """        # E and F are throwback names to the dict() __doc__
        with self._lock:""",
  """        # E and F are throwback names to the dict() __doc__
        if True:""")
M('nolock_copy', 'C03', C,
  """        with self._lock:
            values = self._get_flattened_ll()[1:]""",
  """        if True:
            values = self._get_flattened_ll()[1:]""")
M('nolock_len', 'C03', C,
  """        with self._lock:
            return super().__len__()""",
  """        if True:
            return super().__len__()""")
