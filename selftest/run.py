#!/venv/bin/python
"""Sensitivity self-test: apply small semantic mutants to a scratch copy of /repo
and confirm the property's quick check reports a violation.

  selftest/run.py C01 [C02 ...]        run all mutants of these properties
  selftest/run.py --all
  selftest/run.py --tests C01          also run the repository test-suite on each mutant
                                       (a mutant is only meaningful if the 423 tests stay green)
  selftest/run.py --tier thorough C10

Mutants live in selftest/mutants.py as (name, property, file, old, new) string
replacements (old must occur exactly once).  Scratch copies go to /tmp and are
removed afterwards.  Results are appended to selftest/results.json.
"""
import json
import os
import shutil
import subprocess
import sys
import tempfile
import time
from concurrent.futures import ThreadPoolExecutor

V = os.path.dirname(os.path.dirname(os.path.abspath(__file__)))
sys.path.insert(0, os.path.join(V, 'selftest'))
REPO = '/repo'


def run_one(mut, tier, with_tests, procs):
    name, prop, relfile, old, new = mut
    tmp = tempfile.mkdtemp(prefix='vmut_%s_' % name.replace('/', '_'))
    res = {'mutant': name, 'property': prop, 'tier': tier}
    try:
        shutil.copytree(os.path.join(REPO, 'boltons'), os.path.join(tmp, 'boltons'),
                        ignore=shutil.ignore_patterns('__pycache__'))
        path = os.path.join(tmp, relfile)
        src = open(path).read()
        if src.count(old) != 1:
            res['status'] = 'BAD-MUTANT (old occurs %d times)' % src.count(old)
            return res
        open(path, 'w').write(src.replace(old, new))
        if with_tests:
            shutil.copytree(os.path.join(REPO, 'tests'), os.path.join(tmp, 'tests'),
                            ignore=shutil.ignore_patterns('__pycache__'))
            for f in ('pyproject.toml', 'setup.cfg', 'tox.ini', 'pytest.ini', 'README.md'):
                if os.path.exists(os.path.join(REPO, f)):
                    shutil.copy(os.path.join(REPO, f), tmp)
            env = dict(os.environ, PYTHONPATH=tmp, PYTHONDONTWRITEBYTECODE='1')
            try:
                p = subprocess.run(['/bin/sh', '-c', 'ulimit -v 4000000; exec /venv/bin/python -m pytest -q -x -p no:cacheprovider tests'],
                                   cwd=tmp, env=env, capture_output=True, text=True, timeout=300)
                res['tests'] = 'pass' if p.returncode == 0 else 'FAIL: ' + (p.stdout.strip().splitlines() or ['?'])[-1]
            except subprocess.TimeoutExpired:
                res['tests'] = 'FAIL: test-suite hangs'
        env = dict(os.environ, VERIF_REPO=tmp, VERIF_EVIDENCE=os.path.join(tmp, 'evidence.json'),
                   VERIF_PROCS=str(procs))
        t0 = time.time()
        try:
            p = subprocess.run([os.path.join(V, 'check'), prop, tier], cwd=V, env=env, capture_output=True, text=True,
                               timeout=1500)
        except subprocess.TimeoutExpired:
            subprocess.call(['pkill', '-f', 'VERIF_REPO=%s' % tmp])
            res['status'] = 'CHECK-HUNG (no result within 1500 s)'
            return res
        res['wall_s'] = round(time.time() - t0, 1)
        res['exit'] = p.returncode
        vio = [l for l in p.stdout.splitlines() if l.startswith('VIOLATION')]
        fails = [l for l in p.stdout.splitlines() if l.startswith('FAILURE')]
        res['kinds'] = [l.split('kind=')[1].split(' (')[0] for l in fails][:4]
        if p.returncode == 1 and vio:
            res['status'] = 'caught'
        elif p.returncode == 0:
            res['status'] = 'MISSED'
        else:
            res['status'] = 'HARNESS-ERROR exit %d: %s' % (p.returncode, (p.stdout + p.stderr)[-400:])
        return res
    finally:
        shutil.rmtree(tmp, ignore_errors=True)


def main():
    import mutants
    args = sys.argv[1:]
    tier, with_tests = 'quick', False
    props = []
    only = None
    while args:
        a = args.pop(0)
        if a == '--tier':
            tier = args.pop(0)
        elif a == '--tests':
            with_tests = True
        elif a == '--all':
            props = sorted({m[1] for m in mutants.MUTANTS})
        elif a == '--only':
            only = args.pop(0)
        else:
            props.append(a.upper())
    todo = [m for m in mutants.MUTANTS if m[1] in props and (only is None or only in m[0])]
    par = 4 if len(todo) >= 4 else max(1, len(todo))
    results = []
    with ThreadPoolExecutor(par) as ex:
        for res in ex.map(lambda m: run_one(m, tier, with_tests, max(2, 16 // par)), todo):
            print('%-8s %-45s %-10s %s %s %s' % (res['property'], res['mutant'], res['status'][:60],
                                                  res.get('wall_s', ''), res.get('tests', ''), res.get('kinds', '')))
            sys.stdout.flush()
            results.append(res)
    rp = os.path.join(V, 'selftest', 'results.json')
    old = json.load(open(rp)) if os.path.exists(rp) else {}
    for r in results:
        old['%s/%s/%s' % (r['property'], r['mutant'], r['tier'])] = r
    json.dump(old, open(rp, 'w'), indent=1, sort_keys=True)
    missed = [r for r in results if r['status'] != 'caught']
    print('%d mutants, %d caught, %d not caught' % (len(results), len(results) - len(missed), len(missed)))
    return 1 if missed else 0


if __name__ == '__main__':
    sys.exit(main())
